#!/bin/sh
# usage: check.sh <property> <tier>
# Rebuilds the engine if needed (offline), then decides the property on /repo's
# current working tree. Exit 0 held / 1 VIOLATION / 2 inconclusive.
export GOFLAGS=-mod=mod GOPROXY=off
unset GOTOOLCHAIN
cd /verif/engine || exit 2
go build -o /verif/bin/gosmt ./cmd/gosmt || { echo "INCONCLUSIVE property=$1: engine build failed"; exit 2; }
cd /verif || exit 2
exec /verif/bin/gosmt check --property "$1" --tier "$2"
