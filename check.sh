#!/bin/sh
# usage: check.sh <property> <tier>
# Rebuilds the engine if needed (offline), then decides the property on /repo's
# current working tree. Exit 0 held / 1 VIOLATION / 2 inconclusive.
D=$(cd "$(dirname "$0")" && pwd)
export GOFLAGS=-mod=mod GOPROXY=off
unset GOTOOLCHAIN
export VERIF_DIR=${VERIF_DIR:-$D}
cd "$D/engine" || exit 2
go build -o "$D/bin/gosmt" ./cmd/gosmt || { echo "INCONCLUSIVE property=$1: engine build failed"; exit 2; }
cd "$D" || exit 2
exec "$D/bin/gosmt" check --property "$1" --tier "$2"
