# Hand model of K-FIN-CLI: recv-loop (message + close_stream -> finishStream), watcher (ctx -> cancelStream),
# user canceller, application reader (RecvMsg until error, then Trailer()).  Symbolic scheduler BMC.
import sys, time
from z3 import *
K = int(sys.argv[1]); FIXED = len(sys.argv) > 2 and sys.argv[2] == "fixed"

VARS = dict(  # name -> sort
    done=BitVecSort(2), ctx=BoolSort(), inTable=BoolSort(), chmu=BoolSort(),
    rmu=BoolSort(), closed=BoolSort(), cancelled=BoolSort(), items=BitVecSort(2), parked=BoolSort(),
    metamu=BoolSort(), trailers=BoolSort(), doneSig=BoolSort(), hdrSig=BoolSort(), cancelFrames=BitVecSort(2),
    readmu=BoolSort(), got=BitVecSort(2), rerr=BitVecSort(2), sawTrailers=BoolSort(), bad=BoolSort(),
    wonL=BoolSort(), wonW=BoolSort(), dblclose=BoolSort(),
)
THREADS = ['L', 'W', 'X', 'R']
def mk(i):
    s = {k: Const(f"{k}@{i}", srt) for k, srt in VARS.items()}
    for t in THREADS: s['pc' + t] = BitVec(f"pc{t}@{i}", 6)
    return s

class T:
    def __init__(self, name): self.name, self.edges, self.n = name, [], 0
    def e(self, frm, to, guard=lambda s: BoolVal(True), upd=lambda s: {}):
        self.edges.append((frm, to, guard, upd)); self.n = max(self.n, frm, to)

def finish_seq(th, start, who, trailersVal, after):
    """edges for finishStream body after a successful CAS; returns next free pc"""
    p = start
    def step(guard, upd):
        nonlocal p
        th.e(p, p + 1, guard, upd); p += 1
    # removeStream
    step(lambda s: Not(s['chmu']), lambda s: {'chmu': True})
    step(lambda s: BoolVal(True), lambda s: {'chmu': False, 'inTable': False})
    def rclose():
        step(lambda s: Not(s['rmu']), lambda s: {'rmu': True})
        step(lambda s: BoolVal(True), lambda s: {'rmu': False, 'closed': True,
              'parked': If(And(Not(s['closed']), s['items'] == 0), False, s['parked'])})
    def publish():
        step(lambda s: Not(s['metamu']), lambda s: {'metamu': True})
        step(lambda s: BoolVal(True), lambda s: {'trailers': BoolVal(trailersVal), 'hdrSig': True,
              'dblclose': Or(s['dblclose'], s['doneSig']), 'doneSig': True, 'metamu': False})
    if FIXED: publish(); rclose()
    else: rclose(); publish()
    step(lambda s: BoolVal(True), lambda s: {'ctx': True})   # deferred st.cancel()
    return p

L = T('L')
# 0: accept(message): lock rmu
L.e(0, 1, lambda s: Not(s['rmu']), lambda s: {'rmu': True})
L.e(1, 2, upd=lambda s: {'rmu': False, 'items': If(s['closed'], s['items'], s['items'] + 1),
                         'parked': If(And(Not(s['closed']), s['items'] == 0), False, s['parked'])})
# 2: close_stream -> finishStream(EOF, T): CAS
L.e(2, 3, lambda s: s['done'] == 0, lambda s: {'done': BitVecVal(1, 2), 'wonL': True})
L.e(2, 40, lambda s: s['done'] != 0)
endL = finish_seq(L, 3, 'L', True, 40); L.e(endL, 40)

W = T('W')
W.e(0, 1, lambda s: s['ctx'])                                  # <-ctx.Done()
W.e(1, 2, lambda s: s['done'] == 0, lambda s: {'done': BitVecVal(2, 2), 'wonW': True})
W.e(1, 40, lambda s: s['done'] != 0)
endW = finish_seq(W, 2, 'W', False, 40)
# receiver.cancel()
W.e(endW, endW + 1, lambda s: Not(s['rmu']), lambda s: {'rmu': True})
W.e(endW + 1, endW + 2, upd=lambda s: {'rmu': False, 'cancelled': True, 'items': BitVecVal(0, 2),
      'parked': If(And(Not(s['cancelled']), s['items'] == 0), False, s['parked'])})
W.e(endW + 2, 40, upd=lambda s: {'cancelFrames': s['cancelFrames'] + 1})

X = T('X'); X.e(0, 40, upd=lambda s: {'ctx': True})           # user cancels (may never be scheduled)

R = T('R')
# RecvMsg loop: 0 lock readmu ; 1 lock rmu ; 2 examine ; 3 parked wait ; 4 re-lock after wake
R.e(0, 1, lambda s: Not(s['readmu']), lambda s: {'readmu': True})
R.e(1, 2, lambda s: Not(s['rmu']), lambda s: {'rmu': True})
R.e(2, 5, lambda s: s['cancelled'], lambda s: {'rmu': False, 'rerr': s['done']})                # !ok -> loadDone
R.e(2, 6, lambda s: And(Not(s['cancelled']), s['items'] != 0), lambda s: {'rmu': False, 'items': s['items'] - 1, 'got': s['got'] + 1})
R.e(2, 5, lambda s: And(Not(s['cancelled']), s['items'] == 0, s['closed']), lambda s: {'rmu': False, 'rerr': s['done']})
R.e(2, 3, lambda s: And(Not(s['cancelled']), s['items'] == 0, Not(s['closed'])), lambda s: {'rmu': False, 'parked': True})
R.e(3, 1, lambda s: Not(s['parked']))                                                             # woken: re-acquire
R.e(6, 0, upd=lambda s: {'readmu': False})                                                        # got a message; call RecvMsg again
# 5: error path: fabricated message if rerr==0 (done not set) ; unlock readmu
R.e(5, 7, upd=lambda s: {'readmu': False, 'bad': Or(s['bad'], s['rerr'] == 0)})
# 7: Trailer(): nonblocking read of doneSig
R.e(7, 40, upd=lambda s: {'sawTrailers': And(s['doneSig'], s['trailers'])})

TH = dict(L=L, W=W, X=X, R=R)

def step(s, t, i):
    sched = BitVec(f"sched@{i}", 3)
    keys = list(s.keys()); out = []
    for ti, (name, th) in enumerate(TH.items()):
        alts = []
        for frm, to, g, u in th.edges:
            ud = u(s); ud['pc' + name] = BitVecVal(to, 6)
            alts.append(And(s['pc' + name] == frm, g(s), *[t[k] == (ud[k] if k in ud else s[k]) for k in keys]))
        out.append(And(sched == ti, Or(alts)))
    out.append(And(sched == 4, *[t[k] == s[k] for k in keys]))    # idle
    return Or(out)

def init(s):
    c = [s['pc' + t] == 0 for t in THREADS]
    for k, srt in VARS.items():
        c.append(s[k] == (BoolVal(False) if srt == BoolSort() else BitVecVal(0, srt.size())))
    c[-0:] = c
    return And(c + [s['inTable'] == True])

def enabled_any(s):
    alts = []
    for name, th in TH.items():
        if name == 'X': continue
        for frm, to, g, u in th.edges: alts.append(And(s['pc' + name] == frm, g(s)))
    return Or(alts)

sol = Solver(); sol.set('timeout', 300000)
st = [mk(i) for i in range(K + 1)]
init_c = [st[0]['pc' + t] == 0 for t in THREADS] + [st[0][k] == (BoolVal(k == 'inTable') if srt == BoolSort() else BitVecVal(0, srt.size())) for k, srt in VARS.items()]
sol.add(init_c)
for i in range(K): sol.add(step(st[i], st[i + 1], i))
for i in range(K - 1): sol.add(Implies(BitVec(f"sched@{i}", 3) == 4, BitVec(f"sched@{i+1}", 3) == 4))
f = st[K]
def q(name, cond):
    t0 = time.time(); sol.push(); sol.add(cond); r = sol.check(); sol.pop()
    print(f"  {name}: {r} ({time.time()-t0:.1f}s)"); return r
print(f"K={K} fixed={FIXED}")
q("C02a reader got EOF from close frame but Trailer() empty", And(f['pcR'] == 40, f['rerr'] == 1, Not(f['sawTrailers'])))
q("C01 fabricated (terminal read with done unset)", f['bad'])
q("C07 mixture: both won / double close", Or(And(f['wonL'], f['wonW']), f['dblclose']))
q("C07 cancel frame although close won", And(f['wonL'], f['cancelFrames'] != 0))
q("C01 EOF but message lost", And(f['pcR'] == 40, f['rerr'] == 1, f['got'] == 0))
q("C14/C04 terminal with reader or watcher stuck after termination", And(Not(enabled_any(f)), f['done'] != 0, Or(f['pcR'] != 40, And(f['pcW'] != 40, f['ctx']))))
q("cover: reader finished with Canceled", And(f['pcR'] == 40, f['rerr'] == 2))
q("cover: reader finished with EOF + trailers", And(f['pcR'] == 40, f['rerr'] == 1, f['sawTrailers']))
q("bound adequacy: something still enabled at K", enabled_any(f))
