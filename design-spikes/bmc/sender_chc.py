import sys, time
sys.argv = ['sender.py', '1', sys.argv[1] if len(sys.argv) > 1 else '3'] + sys.argv[2:]
src = open('sender2.py').read().replace("bmc(); induct()", "")
exec(src)
s = mkstate('s'); t = mkstate('t'); keys = list(s.keys())
Inv = Function('Inv', *[s[k].sort() for k in keys], BoolSort())
inv = lambda st: Inv(*[st[k] for k in keys])
fp = SolverFor('HORN'); fp.set('timeout', 300000)
allv = [s[k] for k in keys]; allt = [t[k] for k in keys]
fp.add(ForAll(allv, Implies(init(s, 5 * 16384 + 1), inv(s))))
sched = BitVec("schedx", 2); addv = BitVec("addvx", 32)
fp.add(ForAll(allv + allt + [sched, addv], Implies(And(inv(s), step(s, t, 'x')), inv(t))))
fp.add(ForAll(allv, Implies(And(inv(s), stranded(s)), BoolVal(False))))
t0 = time.time(); r = fp.check()
print(f"[Spacer] sender lost-wake-up NUPD={NUPD} bug={BUG!r}: {'HOLDS' if r == sat else ('VIOLATED' if r == unsat else r)} ({time.time()-t0:.1f}s)")
