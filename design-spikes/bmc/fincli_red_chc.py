import sys, time
src = open(__import__('os').path.join(__import__('os').path.dirname(__import__('os').path.abspath(__file__)),'fincli_red.py')).read()
pre = src.split("sol = Solver(); sol.set('timeout', 300000)")[0]
sys.argv = ['fincli.py', '1'] + sys.argv[1:]
exec(pre)
# CHC encoding for Spacer
s = mk('s'); t = mk('t')
keys = list(s.keys())
Inv = Function('Inv', *[s[k].sort() for k in keys], BoolSort())
def inv(st): return Inv(*[st[k] for k in keys])
def run(name, bad):
    fp = SolverFor('HORN'); fp.set('timeout', 300000)
    init_c = [s['pc' + th] == 0 for th in THREADS] + [s[k] == (BoolVal(k == 'inTable') if srt == BoolSort() else BitVecVal(0, srt.size())) for k, srt in VARS.items()]
    allv = [s[k] for k in keys]; allt = [t[k] for k in keys]
    fp.add(ForAll(allv, Implies(And(init_c), inv(s))))
    # transition: reuse step() but drop sched var by existential -> make it universally quantified too
    sched = BitVec("sched@x", 3)
    fp.add(ForAll(allv + allt + [sched], Implies(And(inv(s), step(s, t, 'x')), inv(t))))
    fp.add(ForAll(allv, Implies(And(inv(s), bad(s)), BoolVal(False))))
    t0 = time.time(); r = fp.check()
    print(f"  [Spacer] {name}: {'HOLDS (sat: invariant found)' if r == sat else ('VIOLATED (unsat: cex)' if r == unsat else r)} ({time.time()-t0:.1f}s)")
print("fixed =", FIXED)
run("C02a EOF but Trailer() empty", lambda f: And(f['pcR'] == 40, f['rerr'] == 1, Not(f['sawTrailers'])))
run("C01 fabricated", lambda f: f['bad'])
run("C07 both won / double close", lambda f: Or(And(f['wonL'], f['wonW']), f['dblclose']))
run("C07 cancel frame although close won", lambda f: And(f['wonL'], f['cancelFrames'] != 0))
run("C01 EOF but message lost", lambda f: And(f['pcR'] == 40, f['rerr'] == 1, f['got'] == 0))
run("stuck after termination", lambda f: And(Not(enabled_any(f)), f['done'] != 0, Or(f['pcR'] != 40, And(f['pcW'] != 40, f['ctx']))))
