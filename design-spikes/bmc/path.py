import sys, time
from z3 import *
N = int(sys.argv[1])
s = Solver(); s.set('timeout', 120000)
win = BitVec('w0', 32); granted = ZeroExt(32, win); sent = BitVecVal(0, 64)
rem = BitVec('len', 32); s.add(ULE(rem, N * 16384 + 1))
off = BitVecVal(0, 32); size = rem
bad = BoolVal(False)
for i in range(N):
    a = BitVec(f'a{i}', 32)            # env credit before the load (any amount, wraps)
    win = win + a; granted = granted + ZeroExt(32, a)
    s.add(win != 0)                     # path: nonzero branch
    w = win
    chunk = If(UGT(w, rem), rem, w); chunk = If(UGT(chunk, 16384), BitVecVal(16384, 32), chunk)
    # path: CAS succeeds (no env change between load and CAS)
    win = w - chunk
    bad = Or(bad, UGT(sent + ZeroExt(32, chunk), granted), UGT(chunk, 16384), UGT(off + chunk, size))
    sent = sent + ZeroExt(32, chunk); off = off + chunk
    last = chunk == rem
    if i < N - 1:
        s.add(Not(last)); rem = rem - chunk
    else:
        s.add(last)
        bad = Or(bad, off != size)
s.add(bad)
t = time.time(); r = s.check(); print(f"N={N} path-wise accounting: {r} in {time.time()-t:.2f}s")
