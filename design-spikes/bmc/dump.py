import sys
sys.argv = ['sender.py', sys.argv[1], sys.argv[2]]
exec(open('sender.py').read().replace("bmc(); induct()", ""))
sol = Solver()
st = [mkstate(i) for i in range(K + 1)]
sol.add(init(st[0], 5 * 16384 + 1))
for i in range(K):
    sol.add(step(st[i], st[i + 1], i))
sol.add(Or([s['bad'] for s in st]))
open(f'bad_K{K}.smt2', 'w').write("(set-logic QF_BV)\n" + sol.to_smt2())
