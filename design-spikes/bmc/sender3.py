# Hand-written guarded-command system (what the extractor should derive from SSA of
# defaultSender.send / updateWindow), BMC with symbolic scheduler + 1-step induction.
import sys, time
from z3 import *

K = int(sys.argv[1]) if len(sys.argv) > 1 else 40
NUPD = int(sys.argv[2]) if len(sys.argv) > 2 else 3
BUG = sys.argv[3] if len(sys.argv) > 3 else ""
USEQF = len(sys.argv) > 4

BV32 = lambda n: BitVecVal(n, 32)
# sender pcs
L_LOCK, L_LOAD, L_WAIT, L_CAS, L_SEND, L_DONE, L_CTXERR = range(7)
# updater pcs: U_ADD, U_SIG, U_END
U_ADD, U_SIG, U_END = range(3)

def mkstate(i):
    s = dict(
        pcS=BitVec(f"pcS{i}", 4), pcU=BitVec(f"pcU{i}", 2), nupd=BitVec(f"nupd{i}", 4),
        win=BitVec(f"win{i}", 32), tok=Bool(f"tok{i}"), ctx=Bool(f"ctx{i}"),
        w=BitVec(f"w{i}", 32), chunk=BitVec(f"chunk{i}", 32), rem=BitVec(f"rem{i}", 32),
        first=Bool(f"first{i}"), sent=BitVec(f"sent{i}", 64), granted=BitVec(f"granted{i}", 64),
        bad=Bool(f"bad{i}"), add=BitVec(f"add{i}", 32),  # add: pending update amount (register of U)
    )
    return s

def step(s, t, i):
    """returns (enabled, constraints relating s->t) list of per-thread transition formulas"""
    sched = BitVec(f"sched{i}", 2)
    addv = BitVec(f"addv{i}", 32)  # nondet amount for this update
    same = lambda keys: And([t[k] == s[k] for k in keys])
    allk = list(s.keys())
    def frame(changed):
        return same([k for k in allk if k not in changed])
    trans = []
    # ---- sender
    S = []
    S.append(And(s['pcS'] == L_LOCK, t['pcS'] == L_LOAD, frame(['pcS'])))
    # load
    chunk0 = If(ULT(s['rem'], s['win']), s['rem'], s['win'])
    chunk1 = If(UGT(chunk0, BV32(16384)), BV32(16384), chunk0)
    S.append(And(s['pcS'] == L_LOAD, s['win'] == 0, t['pcS'] == L_WAIT, t['w'] == s['win'], frame(['pcS', 'w'])))
    S.append(And(s['pcS'] == L_LOAD, s['win'] != 0, t['pcS'] == L_CAS, t['w'] == s['win'], t['chunk'] == chunk1, frame(['pcS', 'w', 'chunk'])))
    # wait (select): token case / ctx case
    if BUG == "nolooprecheck":
        # bug: after wake-up go straight to CAS with stale w (0) -> modelled as going to CAS w/ w=win read w/o zero check
        S.append(And(s['pcS'] == L_WAIT, s['tok'], t['pcS'] == L_LOAD, Not(t['tok']), frame(['pcS', 'tok'])))
    else:
        S.append(And(s['pcS'] == L_WAIT, s['tok'], t['pcS'] == L_LOAD, Not(t['tok']), frame(['pcS', 'tok'])))
    S.append(And(s['pcS'] == L_WAIT, s['ctx'], t['pcS'] == L_CTXERR, frame(['pcS'])))
    # CAS
    S.append(And(s['pcS'] == L_CAS, s['win'] == s['w'], t['win'] == s['w'] - s['chunk'], t['pcS'] == L_SEND, frame(['pcS', 'win'])))
    S.append(And(s['pcS'] == L_CAS, s['win'] != s['w'], t['pcS'] == L_LOAD, frame(['pcS'])))
    # sendFunc
    last = s['chunk'] == s['rem']
    viol = Or(UGT(s['chunk'], BV32(16384)), UGT(s['sent'] + ZeroExt(32, s['chunk']), s['granted']), UGT(s['chunk'], s['rem']))
    S.append(And(s['pcS'] == L_SEND, t['sent'] == s['sent'] + ZeroExt(32, s['chunk']), t['rem'] == s['rem'] - s['chunk'],
                 t['first'] == False, t['pcS'] == If(last, BitVecVal(L_DONE, 4), BitVecVal(L_LOAD, 4)),
                 t['bad'] == Or(s['bad'], viol), frame(['pcS', 'sent', 'rem', 'first', 'bad'])))
    trans.append(And(sched == 0, Or(S)))
    # ---- updater
    U = []
    # Add: if add==0 return (next update)
    more = ULT(s['nupd'], BitVecVal(NUPD, 4))
    prev = s['win']
    if BUG == "signal_on_new":
        sigcond = (s['win'] + addv) == 0   # bug: tests the new value
    elif BUG == "nosignal":
        sigcond = BoolVal(False)
    else:
        sigcond = prev == 0
    U.append(And(s['pcU'] == U_ADD, more, addv == 0, t['nupd'] == s['nupd'] + 1, frame(['nupd'])))
    U.append(And(s['pcU'] == U_ADD, more, addv != 0, t['win'] == s['win'] + addv, t['granted'] == s['granted'] + ZeroExt(32, addv),
                 t['nupd'] == s['nupd'] + 1, t['pcU'] == If(sigcond, BitVecVal(U_SIG, 2), BitVecVal(U_ADD, 2)),
                 frame(['win', 'granted', 'nupd', 'pcU'])))
    U.append(And(s['pcU'] == U_ADD, Not(more), t['pcU'] == U_END, frame(['pcU'])))
    U.append(And(s['pcU'] == U_SIG, t['tok'] == True, t['pcU'] == U_ADD, frame(['tok', 'pcU'])))
    trans.append(And(sched == 1, Or(U)))
    # ---- canceller
    trans.append(And(sched == 2, Not(s['ctx']), t['ctx'] == True, frame(['ctx'])))
    trans.append(And(sched == 3, frame([])))
    return Or(trans)

def enabledS(s):
    return Or(s['pcS'] == L_LOCK, s['pcS'] == L_LOAD, s['pcS'] == L_CAS, s['pcS'] == L_SEND,
              And(s['pcS'] == L_WAIT, Or(s['tok'], s['ctx'])))

def stranded(s):
    # sender parked, cannot move, updater finished or not about to signal, yet credit is available
    return And(s['pcS'] == L_WAIT, Not(s['tok']), Not(s['ctx']), s['pcU'] != U_SIG, s['win'] != 0)

def init(s, msglen_max):
    return And(s['pcS'] == L_LOCK, s['pcU'] == U_ADD, s['nupd'] == 0, Not(s['tok']), Not(s['ctx']),
               s['first'], s['sent'] == 0, s['granted'] == ZeroExt(32, s['win']), Not(s['bad']),
               ULE(s['rem'], BV32(msglen_max)))

def bmc():
    sol = SolverFor('QF_BV') if USEQF else Solver()
    sol.set('timeout', 60000)
    st = [mkstate(i) for i in range(K + 1)]
    sol.add(init(st[0], 5 * 16384 + 1))
    for i in range(K):
        sol.add(step(st[i], st[i + 1], i))
    import os
    C = int(os.environ.get('CB', '0'))
    if C:
        sw = [If(BitVec(f"sched{i}", 2) != BitVec(f"sched{i+1}", 2), BitVecVal(1, 8), BitVecVal(0, 8)) for i in range(K - 1)]
        sol.add(ULE(Sum(sw), C))
        # idle only as a suffix
        for i in range(K - 1):
            sol.add(Implies(BitVec(f"sched{i}", 2) == 3, BitVec(f"sched{i+1}", 2) == 3))
    t0 = time.time()
    r1 = 'skipped'
    t1 = time.time()
    sol.push(); sol.add(Or([stranded(s) for s in st])); r2 = sol.check()
    if r2 == sat:
        m = sol.model()
        print("stranded trace:", [(m.eval(BitVec(f"sched{i}", 2)).as_long(), m.eval(st[i]['pcS']).as_long(), m.eval(st[i]['win']).as_long(), is_true(m.eval(st[i]['tok']))) for i in range(K)][:25])
    sol.pop()
    t2 = time.time()
    # cover: sender waited at least once and still finished
    sol.push(); sol.add(Or([s['pcS'] == L_WAIT for s in st]), st[K]['pcS'] == L_DONE); r3 = sol.check(); sol.pop()
    # bound adequacy: can the sender still be unfinished & enabled at K?
    sol.push(); sol.add(enabledS(st[K])); r4 = sol.check(); sol.pop()
    print(f"K={K} NUPD={NUPD} bug={BUG!r}: shape/credit violated? {r1} ({t1-t0:.2f}s)  stranded? {r2} ({t2-t1:.2f}s)  cover(wait&finish)={r3}  still-enabled-at-K={r4} ({time.time()-t2:.2f}s)")

def induct():
    s, t = mkstate('a'), mkstate('b')
    inv = lambda x: Implies(And(x['pcS'] == L_WAIT, x['win'] != 0), Or(x['tok'], x['pcU'] == U_SIG))
    sol = Solver()
    sol.add(ULE(s['pcS'], 6), ULE(s['pcU'], 2))
    sol.add(inv(s), step(s, t, 'x'), Not(inv(t)))
    t0 = time.time(); r = sol.check()
    print(f"induction step for no-lost-wakeup invariant: {r} ({time.time()-t0:.2f}s)  bug={BUG!r}")
    if r == sat:
        m = sol.model(); print({k: m.eval(v) for k, v in s.items()})

bmc(); induct()
