package sx

import (
	"fmt"
	"go/token"
	"go/types"

	"gosmt/smt"

	"golang.org/x/tools/go/ssa"
)

func (m *Machine) bv64(v int) *smt.Term { return m.C.BV(uint64(int64(v)), 64) }

func (m *Machine) unop(fr *frame, instr *ssa.UnOp, x Value) Value {
	c := m.C
	switch instr.Op {
	case token.MUL:
		p := x.(*Value)
		if p == nil {
			panic(targetPanic{msg: "invalid memory address or nil pointer dereference", pos: m.posString(instr.Pos())})
		}
		if m.race.on {
			m.raceLoad(fr, instr.X, p, accessPos(instr.Pos(), instr.X))
		}
		return copyVal(*p)
	case token.ARROW:
		v, ok := m.chanRecv(fr, x.(*Chan), instr.Pos())
		if instr.CommaOk {
			return Tuple{v, c.Bool(ok)}
		}
		return v
	case token.SUB:
		switch x := x.(type) {
		case *smt.Term:
			return c.Bin(smt.OSub, c.BV(0, x.S.W), x)
		case float64:
			return -x
		}
	case token.NOT:
		return c.Not(x.(*smt.Term))
	case token.XOR:
		t := x.(*smt.Term)
		return c.Bin(smt.OBXor, t, c.BV(^uint64(0), t.S.W))
	}
	panic(m.unsupported(fmt.Sprintf("unary operator %s on %T", instr.Op, x)))
}

func (m *Machine) binop(op token.Token, t types.Type, x, y Value, pos token.Pos) Value {
	c := m.C
	switch op {
	case token.EQL:
		return m.equal(x, y, pos)
	case token.NEQ:
		return c.Not(m.equal(x, y, pos))
	}
	switch xv := x.(type) {
	case *smt.Term:
		yv := y.(*smt.Term)
		if xv.S.K == smt.KBool {
			break
		}
		signed := isSigned(t)
		switch op {
		case token.ADD:
			return c.Bin(smt.OAdd, xv, yv)
		case token.SUB:
			return c.Bin(smt.OSub, xv, yv)
		case token.MUL:
			return c.Bin(smt.OMul, xv, yv)
		case token.QUO, token.REM:
			m.checkPanic(c.Not(c.Eq(yv, c.BV(0, yv.S.W))), "integer divide by zero", pos)
			var o smt.Op
			switch {
			case op == token.QUO && signed:
				o = smt.OSDiv
			case op == token.QUO:
				o = smt.OUDiv
			case signed:
				o = smt.OSRem
			default:
				o = smt.OURem
			}
			return c.Bin(o, xv, yv)
		case token.AND:
			return c.Bin(smt.OBAnd, xv, yv)
		case token.OR:
			return c.Bin(smt.OBOr, xv, yv)
		case token.XOR:
			return c.Bin(smt.OBXor, xv, yv)
		case token.AND_NOT:
			return c.Bin(smt.OBAnd, xv, c.Bin(smt.OBXor, yv, c.BV(^uint64(0), yv.S.W)))
		case token.SHL, token.SHR:
			w := xv.S.W
			// bring the count to the operand width, remembering oversize counts
			var big *smt.Term
			cnt := yv
			if yv.S.W > w {
				big = c.Cmp(smt.OULE, c.BV(uint64(w), yv.S.W), yv)
				cnt = c.Extract(w-1, 0, yv)
			} else {
				cnt = c.Zext(yv, w)
				big = c.Cmp(smt.OULE, c.BV(uint64(w), w), cnt)
			}
			var o smt.Op
			switch {
			case op == token.SHL:
				o = smt.OShl
			case signed:
				o = smt.OAShr
			default:
				o = smt.OLShr
			}
			r := c.Bin(o, xv, cnt)
			var over *smt.Term
			if o == smt.OAShr {
				over = c.Bin(smt.OAShr, xv, c.BV(uint64(w-1), w))
			} else {
				over = c.BV(0, w)
			}
			return c.Ite(big, over, r)
		case token.LSS, token.LEQ, token.GTR, token.GEQ:
			a, b := xv, yv
			if op == token.GTR || op == token.GEQ {
				a, b = b, a
			}
			strict := op == token.LSS || op == token.GTR
			switch {
			case signed && strict:
				return c.Cmp(smt.OSLT, a, b)
			case signed:
				return c.Cmp(smt.OSLE, a, b)
			case strict:
				return c.Cmp(smt.OULT, a, b)
			default:
				return c.Cmp(smt.OULE, a, b)
			}
		}
	case *Seq:
		yv := y.(*Seq)
		switch op {
		case token.ADD:
			return m.seqConcat(xv, yv)
		case token.LSS, token.LEQ, token.GTR, token.GEQ:
			a, oka := xv.GoString()
			b, okb := yv.GoString()
			if oka && okb {
				switch op {
				case token.LSS:
					return c.Bool(a < b)
				case token.LEQ:
					return c.Bool(a <= b)
				case token.GTR:
					return c.Bool(a > b)
				default:
					return c.Bool(a >= b)
				}
			}
			panic(m.unsupported("ordering comparison of symbolic strings"))
		}
	case float64:
		yv := y.(float64)
		switch op {
		case token.ADD:
			return xv + yv
		case token.SUB:
			return xv - yv
		case token.MUL:
			return xv * yv
		case token.QUO:
			return xv / yv
		case token.LSS:
			return c.Bool(xv < yv)
		case token.LEQ:
			return c.Bool(xv <= yv)
		case token.GTR:
			return c.Bool(xv > yv)
		case token.GEQ:
			return c.Bool(xv >= yv)
		}
	}
	panic(m.unsupported(fmt.Sprintf("binary operator %s on %T, %T", op, x, y)))
}

// equal returns the Bool term for x == y.
func (m *Machine) equal(x, y Value, pos token.Pos) *smt.Term {
	c := m.C
	if x == nil || y == nil {
		return c.Bool(isNilValue(x) && isNilValue(y))
	}
	switch xv := x.(type) {
	case *smt.Term:
		return c.Eq(xv, y.(*smt.Term))
	case float64:
		return c.Bool(xv == y.(float64))
	case *Seq:
		yv, ok := y.(*Seq)
		if !ok {
			return c.False()
		}
		return m.seqEq(xv, yv)
	case *Value:
		yv, ok := y.(*Value)
		return c.Bool(ok && xv == yv)
	case *Map:
		yv, ok := y.(*Map)
		return c.Bool(ok && xv == yv)
	case *Chan:
		yv, ok := y.(*Chan)
		return c.Bool(ok && xv == yv)
	case *Closure:
		switch yv := y.(type) {
		case *Closure:
			return c.Bool(xv == yv)
		case *ssa.Function:
			return c.Bool(xv == nil && yv == nil)
		}
		return c.False()
	case *ssa.Function:
		switch yv := y.(type) {
		case *ssa.Function:
			return c.Bool(xv == yv)
		case *Closure:
			return c.Bool(xv == nil && yv == nil)
		}
		return c.False()
	case *hostFunc:
		yv, ok := y.(*hostFunc)
		return c.Bool(ok && xv == yv)
	case Slice:
		yv, ok := y.(Slice)
		if ok && (xv.Nil || yv.Nil) {
			return c.Bool(xv.Nil && yv.Nil)
		}
		panic(targetPanic{msg: "comparing uncomparable type (slice)", pos: m.posString(pos)})
	case Iface:
		yv, ok := y.(Iface)
		if !ok {
			return c.False()
		}
		if xv.T == nil || yv.T == nil {
			return c.Bool(xv.T == nil && yv.T == nil)
		}
		if !types.Identical(xv.T, yv.T) {
			return c.False()
		}
		if !types.Comparable(xv.T) {
			panic(targetPanic{msg: "runtime error: comparing uncomparable type " + xv.T.String(), pos: m.posString(pos)})
		}
		return m.equal(xv.V, yv.V, pos)
	case Struct:
		yv := y.(Struct)
		var cs []*smt.Term
		for i := range xv {
			cs = append(cs, m.equal(xv[i], yv[i], pos))
		}
		return c.And(cs...)
	case Array:
		yv := y.(Array)
		var cs []*smt.Term
		for i := range xv {
			cs = append(cs, m.equal(xv[i], yv[i], pos))
		}
		return c.And(cs...)
	}
	panic(m.unsupported(fmt.Sprintf("equality on %T", x)))
}

// ---------------------------------------------------------------------------
// byte sequences

func (m *Machine) seqBound(a, b *Seq) (int, bool) {
	if a.Len.IsConst() {
		return int(a.Len.Val), true
	}
	if b.Len.IsConst() {
		return int(b.Len.Val), true
	}
	n := -1
	if a.Max >= 0 {
		n = a.Max
	}
	if b.Max >= 0 && (n < 0 || b.Max < n) {
		n = b.Max
	}
	return n, n >= 0
}

func (m *Machine) seqEq(a, b *Seq) *smt.Term {
	c := m.C
	if a == b {
		return c.True()
	}
	if sa, ok := a.GoString(); ok {
		if sb, ok := b.GoString(); ok {
			return c.Bool(sa == sb)
		}
	}
	n, ok := m.seqBound(a, b)
	if !ok {
		panic(m.unsupported("equality of byte sequences without a length bound"))
	}
	if n > 4096 {
		panic(m.unsupported(fmt.Sprintf("equality of byte sequences with bound %d (use verifAssertBytesEq)", n)))
	}
	cs := []*smt.Term{c.Eq(a.Len, b.Len)}
	exact := a.Len.IsConst() || b.Len.IsConst()
	for i := 0; i < n; i++ {
		ix := c.BV(uint64(i), 64)
		e := c.Eq(a.At(ix), b.At(ix))
		if !exact {
			e = c.Implies(c.Cmp(smt.OULT, ix, a.Len), e)
		}
		cs = append(cs, e)
	}
	return c.And(cs...)
}

func (m *Machine) seqConcat(a, b *Seq) *Seq {
	c := m.C
	if sa, ok := a.GoString(); ok {
		if sb, ok := b.GoString(); ok {
			return m.strVal(sa + sb)
		}
		if len(sa) == 0 {
			return b
		}
	}
	if sb, ok := b.GoString(); ok && len(sb) == 0 {
		if a.Nil {
			r := *a
			r.Nil = false
			return &r
		}
		return a
	}
	mx := -1
	if a.Max >= 0 && b.Max >= 0 {
		mx = a.Max + b.Max
	}
	return &Seq{Len: c.Bin(smt.OAdd, a.Len, b.Len), Max: mx,
		At: func(i *smt.Term) *smt.Term {
			inA := c.Cmp(smt.OULT, i, a.Len)
			if inA.IsTrue() {
				return a.At(i)
			}
			if inA.IsFalse() {
				return b.At(c.Bin(smt.OSub, i, a.Len))
			}
			return c.Ite(inA, a.At(i), b.At(c.Bin(smt.OSub, i, a.Len)))
		}}
}

func (m *Machine) seqSlice(x *Seq, lo, hi *smt.Term, pos token.Pos) *Seq {
	c := m.C
	if lo == nil {
		lo = c.BV(0, 64)
	}
	if hi == nil {
		hi = x.Len
	}
	ok := c.And(c.Cmp(smt.OSLE, c.BV(0, 64), lo), c.Cmp(smt.OSLE, lo, hi), c.Cmp(smt.OSLE, hi, x.Len))
	m.checkPanic(ok, "slice bounds out of range", pos)
	if x.isC && lo.IsConst() && hi.IsConst() {
		return m.concSeq(x.Conc[lo.Val:hi.Val])
	}
	mx := x.Max
	if lo.IsConst() && hi.IsConst() {
		mx = int(hi.Val - lo.Val)
	} else if hi.IsConst() && (mx < 0 || int(hi.Val) < mx) {
		mx = int(hi.Val)
	}
	if lo.IsConst() && mx >= 0 && !hi.IsConst() {
		mx -= int(lo.Val)
		if mx < 0 {
			mx = 0
		}
	}
	at := x.At
	return &Seq{Len: c.Bin(smt.OSub, hi, lo), Max: mx,
		At: func(i *smt.Term) *smt.Term { return at(c.Bin(smt.OAdd, lo, i)) }}
}

func (m *Machine) seqFromArray(a []Value) *Seq {
	c := m.C
	allC := true
	bs := make([]byte, len(a))
	for i, v := range a {
		t := v.(*smt.Term)
		if !t.IsConst() {
			allC = false
			break
		}
		bs[i] = byte(t.Val)
	}
	if allC {
		return m.concSeq(bs)
	}
	el := append([]Value(nil), a...)
	return &Seq{Len: c.BV(uint64(len(el)), 64), Max: len(el),
		At: func(i *smt.Term) *smt.Term {
			if i.IsConst() {
				if i.Val < uint64(len(el)) {
					return el[i.Val].(*smt.Term)
				}
				return c.BV(0, 8)
			}
			r := c.BV(0, 8)
			for k := len(el) - 1; k >= 0; k-- {
				r = c.Ite(c.Eq(i, c.BV(uint64(k), 64)), el[k].(*smt.Term), r)
			}
			return r
		}}
}

// ---------------------------------------------------------------------------

func (m *Machine) resize(t *smt.Term, w int, srcSigned bool) *smt.Term {
	switch {
	case t.S.W == w:
		return t
	case t.S.W > w:
		return m.C.Extract(w-1, 0, t)
	case srcSigned:
		return m.C.Sext(t, w)
	default:
		return m.C.Zext(t, w)
	}
}

func (m *Machine) conv(dst, src types.Type, x Value) Value {
	ud, us := dst.Underlying(), src.Underlying()
	switch xv := x.(type) {
	case *smt.Term:
		if db, ok := ud.(*types.Basic); ok {
			if w, _, ok := intWidth(db); ok && xv.S.K == smt.KBV {
				sb, _ := us.(*types.Basic)
				_, ss, _ := intWidth(sb)
				return m.resize(xv, w, ss)
			}
			if db.Info()&types.IsFloat != 0 && xv.IsConst() {
				if isSigned(src) {
					return float64(int64(xv.Val))
				}
				return float64(xv.Val)
			}
			if db.Info()&types.IsString != 0 && xv.IsConst() {
				return m.strVal(string(rune(xv.Val)))
			}
			if db.Kind() == types.Bool {
				return xv
			}
		}
	case float64:
		if db, ok := ud.(*types.Basic); ok {
			if db.Info()&types.IsFloat != 0 {
				return xv
			}
			if w, signed, ok := intWidth(db); ok {
				if signed {
					return m.C.BV(uint64(int64(xv)), w)
				}
				return m.C.BV(uint64(xv), w)
			}
		}
	case *Seq:
		if isByteSeqType(dst) {
			if xv.Nil && isString(dst) {
				r := *xv
				r.Nil = false
				return &r
			}
			if isString(src) && !isString(dst) && xv.Nil {
				r := *xv
				r.Nil = false
				return &r
			}
			return xv
		}
		if sl, ok := ud.(*types.Slice); ok {
			if b, ok := sl.Elem().Underlying().(*types.Basic); ok && b.Kind() == types.Int32 {
				if s, ok := xv.GoString(); ok {
					var out []Value
					for _, r := range s {
						out = append(out, m.C.BV(uint64(r), 32))
					}
					return Slice{A: out}
				}
			}
		}
	case *Value:
		return xv // pointer <-> unsafe.Pointer
	case Slice:
		if isString(dst) { // []rune -> string
			var rs []rune
			for _, e := range xv.A {
				t := e.(*smt.Term)
				if !t.IsConst() {
					panic(m.unsupported("string(symbolic []rune)"))
				}
				rs = append(rs, rune(t.Val))
			}
			return m.strVal(string(rs))
		}
		return xv
	}
	panic(m.unsupported(fmt.Sprintf("conversion %s -> %s on %T", src, dst, x)))
}

// concInt turns a term that must be concrete (a length, a capacity) into a
// host integer. A symbolic term is concretised with the solver: if the path
// condition fixes its value that value is used, otherwise the engine forks
// over the feasible values (bounded).
func (m *Machine) concInt(v Value, what string) int {
	t, ok := v.(*smt.Term)
	if !ok {
		panic(m.unsupported(what + " must be an integer"))
	}
	if t.IsConst() {
		return int(int64(t.Val))
	}
	for tries := 0; tries < 64; tries++ {
		v := m.modelValue(t, what)
		k := m.C.BV(v, t.S.W)
		if m.Branch(m.C.Eq(t, k)) {
			return int(int64(v))
		}
	}
	panic(m.unsupported(what + " must be concrete (more than 64 feasible values)"))
}

// idx64 widens an index operand to 64 bits according to its static type.
func (m *Machine) idx64(v Value, sv ssa.Value) *smt.Term {
	t, ok := v.(*smt.Term)
	if !ok || t == nil {
		return nil
	}
	if t.S.W == 64 {
		return t
	}
	return m.resize(t, 64, sv != nil && isSigned(sv.Type()))
}

func (m *Machine) slice(instr *ssa.Slice, x, lo, hi, max Value) Value {
	pos := instr.Pos()
	tl := m.idx64(lo, instr.Low)
	th := m.idx64(hi, instr.High)
	switch xv := x.(type) {
	case *Seq:
		if max != nil {
			// 3-index slice on bytes: capacity is not modelled beyond len
		}
		r := m.seqSlice(xv, tl, th, pos)
		return r
	case Slice:
		l, h, mx := 0, len(xv.A), cap(xv.A)
		if tl != nil {
			l = m.concretizeIndex(tl, cap(xv.A)+1, pos, "slice bounds out of range")
		}
		if th != nil {
			h = m.concretizeIndex(th, cap(xv.A)+1, pos, "slice bounds out of range")
		}
		if max != nil {
			mx = m.concInt(max, "slice max")
		}
		if l < 0 || l > h || h > mx || mx > cap(xv.A) {
			panic(targetPanic{msg: fmt.Sprintf("slice bounds out of range [%d:%d:%d] with capacity %d", l, h, mx, cap(xv.A)), pos: m.posString(pos)})
		}
		if xv.Nil {
			return Slice{Nil: true}
		}
		return Slice{A: xv.A[l:h:mx]}
	case *Value:
		if xv == nil {
			panic(targetPanic{msg: "nil pointer dereference (slice of nil array pointer)", pos: m.posString(pos)})
		}
		arr := (*xv).(Array)
		l, h := 0, len(arr)
		if tl != nil {
			l = m.concInt(tl, "array slice low")
		}
		if th != nil {
			h = m.concInt(th, "array slice high")
		}
		if l < 0 || l > h || h > len(arr) {
			panic(targetPanic{msg: "slice bounds out of range", pos: m.posString(pos)})
		}
		if isByteSeqType(instr.Type()) {
			return m.seqFromArray([]Value(arr)[l:h])
		}
		return Slice{A: []Value(arr)[l:h]}
	}
	panic(m.unsupported(fmt.Sprintf("slice of %T", x)))
}

// AllocBound: the largest byte slice the package under test may allocate with a size that is not a
// constant (two flow-control windows). Sizes that depend on input - a peer's frame - must stay below
// it on every path: implicit obligation ALLOC (a peer must not be able to make an endpoint allocate
// memory at will, whatever is later stored in it).
const AllocBound = 2 * 65536

func (m *Machine) makeSlice(instr *ssa.MakeSlice, ln, cp Value) Value {
	if isByteSeqType(instr.Type()) {
		l := ln.(*smt.Term)
		c := m.C
		if m.inLibrary(instr.Parent()) {
			for _, sz := range []Value{ln, cp} {
				if t, ok := sz.(*smt.Term); ok && !t.IsConst() {
					x := t
					if x.S.W < 64 {
						x = c.Zext(x, 64)
					}
					p := m.posString(instr.Pos())
					// (first ask for a size that a native replay can tell from noise: > 64 MiB)
					huge := c.Cmp(smt.OULE, x, c.BV(1<<26, 64))
					within := c.Cmp(smt.OULE, x, c.BV(AllocBound, 64))
					msg := "allocation of a byte slice whose size an input controls can exceed two flow-control windows at " + p
					if !m.obligation(huge, "ALLOC", p, msg) {
						m.obligation(within, "ALLOC", p, msg)
					}
					m.Assume(within)
				}
			}
		}
		if l.IsConst() {
			return m.concSeq(make([]byte, int(l.Val)))
		}
		return &Seq{Len: l, Max: -1, At: func(*smt.Term) *smt.Term { return c.BV(0, 8) }}
	}
	l := m.concInt(ln, "make([]T) length")
	cpv := m.concInt(cp, "make([]T) capacity")
	a := make([]Value, cpv)
	et := instr.Type().Underlying().(*types.Slice).Elem()
	for i := range a {
		a[i] = m.zero(et)
	}
	return Slice{A: a[:l]}
}

// concretizeIndex turns a (possibly symbolic) index into a concrete one in
// [0,n) by forking over the feasible values; out-of-range is a panic obligation.
func (m *Machine) concretizeIndex(idx *smt.Term, n int, pos token.Pos, what string) int {
	c := m.C
	if idx.IsConst() {
		v := int64(idx.Val)
		if idx.S.W < 64 {
			v = int64(idx.Val)
		}
		if v < 0 || v >= int64(n) {
			panic(targetPanic{msg: fmt.Sprintf("%s [%d] with length %d", what, v, n), pos: m.posString(pos)})
		}
		return int(v)
	}
	ix := idx
	if ix.S.W < 64 {
		ix = c.Zext(ix, 64)
	}
	ok := c.And(c.Cmp(smt.OSLE, c.BV(0, 64), ix), c.Cmp(smt.OSLT, ix, c.BV(uint64(n), 64)))
	m.checkPanic(ok, what, pos)
	for k := 0; k < n-1; k++ {
		if m.Branch(c.Eq(ix, c.BV(uint64(k), 64))) {
			return k
		}
	}
	if n == 0 {
		panic(pathEnd{"infeasible"})
	}
	m.Assume(c.Eq(ix, c.BV(uint64(n-1), 64)))
	return n - 1
}

func (m *Machine) indexAddr(instr *ssa.IndexAddr, x, idx Value) Value {
	it := m.idx64(idx, instr.Index)
	switch xv := x.(type) {
	case Slice:
		k := m.concretizeIndex(it, len(xv.A), instr.Pos(), "index out of range")
		return &xv.A[k]
	case *Value:
		if xv == nil {
			panic(targetPanic{msg: "nil pointer dereference (index of nil array pointer)", pos: m.posString(instr.Pos())})
		}
		arr := (*xv).(Array)
		k := m.concretizeIndex(it, len(arr), instr.Pos(), "index out of range")
		return &arr[k]
	case *Seq:
		ix := m.resize(it, 64, true)
		ok := m.C.And(m.C.Cmp(smt.OSLE, m.C.BV(0, 64), ix), m.C.Cmp(smt.OSLT, ix, xv.Len))
		m.checkPanic(ok, "index out of range", instr.Pos())
		p := new(Value)
		*p = xv.At(ix)
		m.roPtrs[p] = true
		return p
	}
	panic(m.unsupported(fmt.Sprintf("IndexAddr on %T", x)))
}

func (m *Machine) index(instr *ssa.Index, x, idx Value) Value {
	it := m.idx64(idx, instr.Index)
	switch xv := x.(type) {
	case Array:
		k := m.concretizeIndex(it, len(xv), instr.Pos(), "index out of range")
		return copyVal(xv[k])
	case *Seq:
		return m.seqIndex(xv, it, instr.Pos())
	}
	panic(m.unsupported(fmt.Sprintf("Index on %T", x)))
}

func (m *Machine) seqIndex(xv *Seq, it *smt.Term, pos token.Pos) *smt.Term {
	ix := m.resize(it, 64, true)
	ok := m.C.And(m.C.Cmp(smt.OSLE, m.C.BV(0, 64), ix), m.C.Cmp(smt.OSLT, ix, xv.Len))
	m.checkPanic(ok, "index out of range", pos)
	return xv.At(ix)
}

// ---------------------------------------------------------------------------
// maps

func (m *Machine) mapFind(mp *Map, key Value, pos token.Pos) *mapEntry {
	if mp == nil {
		return nil
	}
	if ik, ok := key.(Iface); ok && ik.T != nil && !types.Comparable(ik.T) {
		panic(targetPanic{msg: "runtime error: hash of unhashable type " + ik.T.String(), pos: m.posString(pos)})
	}
	for _, e := range mp.Entries {
		eq := m.equal(key, e.K, pos)
		if eq.IsTrue() {
			return e
		}
		if eq.IsFalse() {
			continue
		}
		if m.Branch(eq) {
			return e
		}
	}
	return nil
}

func (m *Machine) lookup(instr *ssa.Lookup, x, key Value) Value {
	if s, ok := x.(*Seq); ok {
		return m.seqIndex(s, m.idx64(key, instr.Index), instr.Pos())
	}
	mp := x.(*Map)
	e := m.mapFind(mp, key, instr.Pos())
	var v Value
	if e != nil {
		v = copyVal(e.V)
	} else {
		v = m.zero(instr.X.Type().Underlying().(*types.Map).Elem())
	}
	if instr.CommaOk {
		return Tuple{v, m.C.Bool(e != nil)}
	}
	return v
}

func (m *Machine) mapUpdate(mp *Map, key, val Value) {
	e := m.mapFind(mp, key, token.NoPos)
	if e != nil {
		e.V = copyVal(val)
		return
	}
	mp.Entries = append(mp.Entries, &mapEntry{K: copyVal(key), V: copyVal(val)})
}

func (m *Machine) mapDelete(mp *Map, key Value) {
	if mp == nil {
		return
	}
	e := m.mapFind(mp, key, token.NoPos)
	if e == nil {
		return
	}
	for i, x := range mp.Entries {
		if x == e {
			mp.Entries = append(mp.Entries[:i:i], mp.Entries[i+1:]...)
			return
		}
	}
}

func (m *Machine) zeroOrNil(t types.Type) Value {
	if b, ok := t.(*types.Basic); ok && b.Kind() == types.Invalid {
		return nil
	}
	return m.zero(t)
}

func (m *Machine) rangeIter(x Value, t types.Type) Value {
	switch xv := x.(type) {
	case *Map:
		it := &MapIter{m: xv}
		if xv != nil {
			it.snap = append([]*mapEntry(nil), xv.Entries...)
		}
		return it
	case *Seq:
		if _, ok := xv.GoString(); !ok {
			panic(m.unsupported("range over a symbolic string"))
		}
		return &StrIter{s: xv}
	}
	panic(m.unsupported(fmt.Sprintf("range over %T", x)))
}

func (m *Machine) next(it Value, instr *ssa.Next) Value {
	c := m.C
	switch it := it.(type) {
	case *MapIter:
		for it.i < len(it.snap) {
			e := it.snap[it.i]
			it.i++
			// skip entries deleted during iteration
			live := false
			for _, x := range it.m.Entries {
				if x == e {
					live = true
					break
				}
			}
			if live {
				return Tuple{c.True(), copyVal(e.K), copyVal(e.V)}
			}
		}
		tt := instr.Type().(*types.Tuple)
		return Tuple{c.False(), m.zeroOrNil(tt.At(1).Type()), m.zeroOrNil(tt.At(2).Type())}
	case *StrIter:
		s := string(it.s.Conc)
		if it.i >= len(s) {
			return Tuple{c.False(), c.BV(0, 64), c.BV(0, 32)}
		}
		for i, r := range s[it.i:] {
			_ = i
			idx := it.i
			it.i += len(string(r))
			if r == 0xFFFD {
				it.i = idx + 1
			}
			return Tuple{c.True(), c.BV(uint64(idx), 64), c.BV(uint64(r), 32)}
		}
	}
	panic(m.unsupported(fmt.Sprintf("next on %T", it)))
}

// ---------------------------------------------------------------------------
// type assertions

func (m *Machine) implements(dyn types.Type, it *types.Interface) bool {
	return types.Implements(dyn, it)
}

func (m *Machine) typeAssert(instr *ssa.TypeAssert, itf Iface) Value {
	var ok bool
	var v Value
	if it, isI := instr.AssertedType.Underlying().(*types.Interface); isI {
		ok = itf.T != nil && m.implements(itf.T, it)
		if ok {
			v = itf
		}
	} else {
		ok = itf.T != nil && types.Identical(itf.T, instr.AssertedType)
		if ok {
			v = itf.V
		}
	}
	if instr.CommaOk {
		if !ok {
			v = m.zero(instr.AssertedType)
		}
		return Tuple{v, m.C.Bool(ok)}
	}
	if !ok {
		dyn := "nil"
		if itf.T != nil {
			dyn = itf.T.String()
		}
		panic(targetPanic{msg: fmt.Sprintf("interface conversion: interface is %s, not %s", dyn, instr.AssertedType), pos: m.posString(instr.Pos())})
	}
	return v
}

// ---------------------------------------------------------------------------
// channels

func (m *Machine) newChan(cap int, elem types.Type) *Chan {
	m.chanSeq++
	return &Chan{ID: m.chanSeq, Cap: cap, ElemT: elem}
}

func (ch *Chan) recvReady() bool {
	return ch != nil && (len(ch.Buf) > 0 || ch.Closed || len(ch.sendq) > 0)
}

func (ch *Chan) sendReady() bool {
	return ch != nil && (ch.Closed || len(ch.Buf) < ch.Cap || (ch.Cap == 0 && ch.recvWaiting > 0))
}

func (m *Machine) chanRecv(fr *frame, ch *Chan, pos token.Pos) (Value, bool) {
	m.syncPoint(fr)
	if ch == nil {
		m.block(func() bool { return false }, "receive from nil channel")
	}
	if !ch.recvReady() {
		ch.recvWaiting++
		m.block(ch.recvReady, fmt.Sprintf("chan receive (chan #%d)", ch.ID))
		ch.recvWaiting--
	}
	return m.chanTake(ch)
}

// notifySelects commits every select parked on ch to the cases that are ready now.
func (ch *Chan) notifySelects() {
	for _, w := range ch.selWaiters {
		if w.committed == nil {
			if rd := w.ready(); len(rd) > 0 {
				w.committed = rd
			}
		}
	}
}

func (m *Machine) chanTake(ch *Chan) (Value, bool) {
	if len(ch.Buf) > 0 {
		v := ch.Buf[0]
		ch.Buf = ch.Buf[1:]
		if m.race.on {
			if len(ch.vcs) > 0 {
				m.hbAcquireVC(ch.vcs[0])
				ch.vcs = ch.vcs[1:]
			}
			ch.recvVCs = append(ch.recvVCs, m.hbNow())
		}
		ch.notifySelects()
		return v, true
	}
	if len(ch.sendq) > 0 {
		s := ch.sendq[0]
		ch.sendq = ch.sendq[1:]
		s.taken = true
		if m.race.on {
			m.hbAcquireVC(s.vc)
			s.rvc = m.hbNow()
		}
		return s.v, true
	}
	m.hbAcquireVC(ch.closeVC)
	return m.zero(ch.ElemT), false
}

// hbBufSend: the clocks of a completed send on a buffered channel.
func (m *Machine) hbBufSend(ch *Chan) {
	if !m.race.on {
		return
	}
	if k := ch.nsent - ch.Cap; k >= 0 && k < len(ch.recvVCs) {
		m.hbAcquireVC(ch.recvVCs[k])
	}
	ch.nsent++
	ch.vcs = append(ch.vcs, m.hbNow())
}

func (m *Machine) chanSend(fr *frame, ch *Chan, v Value, pos token.Pos) {
	m.syncPoint(fr)
	if ch == nil {
		m.block(func() bool { return false }, "send on nil channel")
	}
	if ch.Closed {
		panic(targetPanic{msg: "send on closed channel", pos: m.posString(pos)})
	}
	if ch.Cap > 0 {
		if len(ch.Buf) >= ch.Cap {
			m.block(func() bool { return ch.Closed || len(ch.Buf) < ch.Cap }, fmt.Sprintf("chan send (chan #%d full)", ch.ID))
			if ch.Closed {
				panic(targetPanic{msg: "send on closed channel", pos: m.posString(pos)})
			}
		}
		ch.Buf = append(ch.Buf, copyVal(v))
		m.hbBufSend(ch)
		ch.notifySelects()
		m.syncAfter(fr)
		return
	}
	s := &chanSend{v: copyVal(v), th: m.cur, vc: m.hbNow()}
	ch.sendq = append(ch.sendq, s)
	m.block(func() bool { return s.taken || ch.Closed }, fmt.Sprintf("chan send (unbuffered chan #%d)", ch.ID))
	if !s.taken {
		panic(targetPanic{msg: "send on closed channel", pos: m.posString(pos)})
	}
	m.hbAcquireVC(s.rvc)
}

func (m *Machine) chanClose(fr *frame, ch *Chan, pos token.Pos) {
	m.syncPoint(fr)
	if ch == nil {
		panic(targetPanic{msg: "close of nil channel", pos: m.posString(pos)})
	}
	if ch.Closed {
		panic(targetPanic{msg: "close of closed channel", pos: m.posString(pos)})
	}
	ch.Closed = true
	ch.closeVC = m.hbNow()
	ch.notifySelects()
	m.syncAfter(fr)
}

func (m *Machine) selectInstr(fr *frame, instr *ssa.Select) Value {
	m.syncPoint(fr)
	type st struct {
		ch   *Chan
		send Value
		recv bool
	}
	var states []st
	for _, s := range instr.States {
		x := st{recv: s.Dir == types.RecvOnly}
		x.ch, _ = fr.get(s.Chan).(*Chan)
		if s.Send != nil {
			x.send = fr.get(s.Send)
		}
		states = append(states, x)
	}
	ready := func() []int {
		var r []int
		for i, s := range states {
			if s.ch == nil {
				continue
			}
			if s.recv && s.ch.recvReady() {
				r = append(r, i)
			}
			if !s.recv && s.ch.sendReady() {
				r = append(r, i)
			}
		}
		return r
	}
	rd := ready()
	chosen := -1
	if len(rd) == 0 {
		if instr.Blocking {
			w := &selWaiter{ready: ready}
			for _, s := range states {
				if s.ch != nil {
					s.ch.selWaiters = append(s.ch.selWaiters, w)
					if s.recv {
						s.ch.recvWaiting++
					}
				}
			}
			m.block(func() bool {
				if w.committed == nil {
					// (events that do not go through a channel operation of the engine, if any)
					if r := ready(); len(r) > 0 {
						w.committed = r
					}
				}
				return w.committed != nil
			}, "select")
			for _, s := range states {
				if s.ch != nil {
					for i, x := range s.ch.selWaiters {
						if x == w {
							s.ch.selWaiters = append(s.ch.selWaiters[:i:i], s.ch.selWaiters[i+1:]...)
							break
						}
					}
					if s.recv {
						s.ch.recvWaiting--
					}
				}
			}
			// the cases the select was woken by; one of them may have been taken by
			// somebody else in the meantime (then fall back to what is ready now)
			now := ready()
			for _, i := range w.committed {
				for _, j := range now {
					if i == j {
						rd = append(rd, i)
					}
				}
			}
			if len(rd) == 0 {
				rd = now
			}
		}
	}
	if len(rd) > 0 {
		chosen = rd[m.Choose(len(rd), "select")]
	}
	res := Tuple{m.bv64(chosen), m.C.False()}
	for i, s := range states {
		if !s.recv {
			if i == chosen {
				if s.ch.Closed {
					panic(targetPanic{msg: "send on closed channel (select)", pos: m.posString(instr.Pos())})
				}
				if s.ch.Cap == 0 {
					panic(m.unsupported("select send on unbuffered channel"))
				}
				s.ch.Buf = append(s.ch.Buf, copyVal(s.send))
				m.hbBufSend(s.ch)
			}
			continue
		}
		var v Value
		if i == chosen {
			var ok bool
			v, ok = m.chanTake(s.ch)
			res[1] = m.C.Bool(ok)
		} else {
			v = m.zero(instr.States[i].Chan.Type().Underlying().(*types.Chan).Elem())
		}
		res = append(res, v)
	}
	return res
}

// ---------------------------------------------------------------------------
// builtins

func (m *Machine) callBuiltin(caller *frame, pos token.Pos, fn *ssa.Builtin, args []Value) Value {
	c := m.C
	switch fn.Name() {
	case "len":
		switch x := args[0].(type) {
		case *Seq:
			return x.Len
		case Slice:
			return m.bv64(len(x.A))
		case *Map:
			if x == nil {
				return m.bv64(0)
			}
			if m.race.on {
				m.raceMapRead(caller, x, pos)
			}
			return m.bv64(len(x.Entries))
		case *Chan:
			if x == nil {
				return m.bv64(0)
			}
			return m.bv64(len(x.Buf))
		case Array:
			return m.bv64(len(x))
		case *Value:
			return m.bv64(len((*x).(Array)))
		}
	case "cap":
		switch x := args[0].(type) {
		case *Seq:
			return x.Len
		case Slice:
			return m.bv64(cap(x.A))
		case *Chan:
			if x == nil {
				return m.bv64(0)
			}
			return m.bv64(x.Cap)
		case Array:
			return m.bv64(len(x))
		case *Value:
			return m.bv64(len((*x).(Array)))
		}
	case "append":
		switch x := args[0].(type) {
		case *Seq:
			y := args[1].(*Seq)
			return m.seqConcat(x, y)
		case Slice:
			y := args[1].(Slice)
			if len(y.A) == 0 {
				return x
			}
			add := make([]Value, len(y.A))
			for i := range y.A {
				add[i] = copyVal(y.A[i])
			}
			if m.race.on && m.raceActive(caller) {
				// element reads of the source; element writes when appending in place
				// (both the cells as they were and as they are afterwards: a struct
				// element is replaced as a whole)
				for i := range y.A {
					raceCells(&y.A[i], func(c *Value) { m.raceRead(caller, c, pos) }, 0)
				}
				inPlace := len(x.A)+len(add) <= cap(x.A)
				if inPlace {
					full := x.A[:cap(x.A)]
					for i := range add {
						raceCells(&full[len(x.A)+i], func(c *Value) { m.raceWrite(caller, c, pos) }, 0)
					}
				} else {
					for i := range x.A {
						raceCells(&x.A[i], func(c *Value) { m.raceRead(caller, c, pos) }, 0)
					}
				}
				r := append(x.A, add...)
				if inPlace {
					for i := range add {
						raceCells(&r[len(x.A)+i], func(c *Value) { m.raceWrite(caller, c, pos) }, 0)
					}
				}
				return Slice{A: r}
			}
			return Slice{A: append(x.A, add...)}
		}
	case "copy":
		switch d := args[0].(type) {
		case Slice:
			s := args[1].(Slice)
			n := len(d.A)
			if len(s.A) < n {
				n = len(s.A)
			}
			tmp := make([]Value, n)
			for i := 0; i < n; i++ {
				tmp[i] = copyVal(s.A[i])
			}
			if m.race.on && m.raceActive(caller) {
				for i := 0; i < n; i++ {
					raceCells(&s.A[i], func(c *Value) { m.raceRead(caller, c, pos) }, 0)
					raceCells(&d.A[i], func(c *Value) { m.raceWrite(caller, c, pos) }, 0)
				}
			}
			copy(d.A, tmp)
			if m.race.on && m.raceActive(caller) {
				for i := 0; i < n; i++ {
					raceCells(&d.A[i], func(c *Value) { m.raceWrite(caller, c, pos) }, 0)
				}
			}
			return m.bv64(n)
		}
	case "close":
		m.chanClose(caller, args[0].(*Chan), pos)
		return nil
	case "delete":
		if m.race.on {
			m.raceMapWrite(caller, args[0].(*Map), pos)
		}
		m.mapDelete(args[0].(*Map), args[1])
		return nil
	case "print", "println":
		return nil
	case "recover":
		return m.doRecover(caller)
	case "ssa:wrapnilchk":
		if isNilValue(args[0]) {
			panic(targetPanic{msg: "value method called using nil pointer", pos: m.posString(pos)})
		}
		return args[0]
	case "min", "max":
		r := args[0].(*smt.Term)
		signed := true
		if caller != nil {
			if ci, ok := caller.curInstr.(ssa.Value); ok {
				signed = isSigned(ci.Type())
			}
		}
		for _, a := range args[1:] {
			t := a.(*smt.Term)
			var lt *smt.Term
			if signed {
				lt = c.Cmp(smt.OSLT, t, r)
			} else {
				lt = c.Cmp(smt.OULT, t, r)
			}
			if fn.Name() == "max" {
				lt = c.Not(c.Or(lt, c.Eq(t, r)))
			}
			r = c.Ite(lt, t, r)
		}
		return r
	case "clear":
		switch x := args[0].(type) {
		case *Map:
			if x != nil {
				x.Entries = nil
			}
			return nil
		}
	}
	panic(m.unsupported(fmt.Sprintf("builtin %s on %T", fn.Name(), args[0])))
}

func (m *Machine) doRecover(caller *frame) Value {
	// recover() is effective only when called directly by a deferred function
	if caller != nil && caller.caller != nil && caller.caller.panicking {
		tp, ok := caller.caller.panicVal.(targetPanic)
		if ok {
			caller.caller.panicking = false
			caller.caller.panicVal = nil
			if tp.v != nil {
				return tp.v
			}
			return Iface{T: types.Typ[types.String], V: m.strVal(tp.msg)}
		}
	}
	return Iface{}
}
