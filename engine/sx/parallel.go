package sx

import (
	"fmt"
	"sync"
	"sync/atomic"
	"time"

	"gosmt/smt"
)

// Tokens bounds the number of solver processes working at any time, across
// all harnesses of one check.
type Tokens chan struct{}

func NewTokens(n int) Tokens {
	t := make(Tokens, n)
	for i := 0; i < n; i++ {
		t <- struct{}{}
	}
	return t
}

// Pool is the shared work queue of one harness: jobs are path-tree prefixes.
type Pool struct {
	mu      sync.Mutex
	cond    *sync.Cond
	queue   [][]event
	idle    int
	workers int
	closed  bool
	paths   int64
	lim     Limits
	start   time.Time
	tokens  Tokens
	busyNS  int64 // token-holding time summed over workers
}

// charge adds the time an explorer has held a token since its last charge.
func (p *Pool) charge(ex *Explorer) {
	now := time.Now()
	atomic.AddInt64(&p.busyNS, int64(now.Sub(ex.lastCharge)))
	ex.lastCharge = now
}

func (p *Pool) put(job []event) {
	p.mu.Lock()
	p.queue = append(p.queue, job)
	p.mu.Unlock()
	p.cond.Signal()
}

// hungry: some worker is idle, nothing is queued for it, and a token is free.
func (p *Pool) hungry() bool {
	p.mu.Lock()
	defer p.mu.Unlock()
	return p.idle > 0 && len(p.queue) < p.idle && len(p.tokens) > 0
}

func (p *Pool) countPath() { atomic.AddInt64(&p.paths, 1) }

// AbortAll, once set, makes every exploration stop as if over budget (used when a
// sibling harness has already found a violation and only the first one is wanted).
var AbortAll atomic.Bool

func (p *Pool) overBudget() string {
	if AbortAll.Load() {
		return "stopped: another harness of this check already found a violation (fail-fast mode)"
	}
	if p.lim.MaxPaths > 0 && atomic.LoadInt64(&p.paths) >= int64(p.lim.MaxPaths) {
		return fmt.Sprintf("path budget %d exhausted before the path tree was covered", p.lim.MaxPaths)
	}
	// The time budget is charged in core-time: seconds of holding one of the
	// cap(tokens) execution tokens, divided by cap(tokens). A harness that
	// shares the cores with sibling harnesses is therefore not cut short by them.
	if p.lim.MaxSeconds > 0 && float64(atomic.LoadInt64(&p.busyNS))/1e9/float64(cap(p.tokens)) > p.lim.MaxSeconds {
		return fmt.Sprintf("time budget %.0fs (x%d cores) exhausted before the path tree was covered", p.lim.MaxSeconds, cap(p.tokens))
	}
	return ""
}

// get blocks until a job is available; ok=false when all work is done.
func (p *Pool) get() ([]event, bool) {
	p.mu.Lock()
	defer p.mu.Unlock()
	p.idle++
	for len(p.queue) == 0 && !p.closed {
		if p.idle == p.workers {
			// everybody is idle and nothing is queued: finished
			p.closed = true
			p.cond.Broadcast()
			break
		}
		p.cond.Wait()
	}
	if len(p.queue) == 0 {
		return nil, false
	}
	p.idle--
	job := p.queue[0]
	p.queue = p.queue[1:]
	return job, true
}

// ExploreParallel explores the path tree of one harness with up to `workers`
// explorers (each with its own term context and solver processes).
func ExploreParallel(mk func() (*Explorer, error), workers int, tokens Tokens, lim Limits) (*Result, error) {
	p := &Pool{workers: workers, lim: lim, start: time.Now(), tokens: tokens}
	p.cond = sync.NewCond(&p.mu)
	p.queue = append(p.queue, nil) // the root job
	results := make([]*Result, workers)
	errs := make([]error, workers)
	var wg sync.WaitGroup
	for w := 0; w < workers; w++ {
		wg.Add(1)
		go func(w int) {
			defer wg.Done()
			var ex *Explorer
			for {
				job, ok := p.get()
				if !ok {
					break
				}
				<-tokens
				if ex == nil {
					var err error
					ex, err = mk()
					if err != nil {
						errs[w] = err
						tokens <- struct{}{}
						// put the job back for somebody else
						p.put(job)
						return
					}
					ex.start = time.Now()
				}
				ex.lastCharge = time.Now()
				ex.runSubtree(job, p)
				p.charge(ex)
				tokens <- struct{}{}
				if !ex.Res.Exhausted {
					// budget cut: stop everything
					p.mu.Lock()
					p.closed = true
					p.queue = nil
					p.mu.Unlock()
					p.cond.Broadcast()
					ex.Res.cut = true
					break
				}
			}
			if ex != nil {
				ex.finish()
				results[w] = ex.Res
			}
		}(w)
	}
	wg.Wait()
	var merged *Result
	for w, r := range results {
		if r == nil {
			if errs[w] != nil && merged == nil && w == workers-1 {
				return nil, errs[w]
			}
			continue
		}
		if merged == nil {
			merged = r
			merged.Exhausted = !r.cut
			continue
		}
		mergeResult(merged, r)
	}
	if merged == nil {
		for _, e := range errs {
			if e != nil {
				return nil, e
			}
		}
		return nil, fmt.Errorf("no worker produced a result")
	}
	merged.Seconds = time.Since(p.start).Seconds()
	return merged, nil
}

func mergeResult(a, b *Result) {
	a.Paths += b.Paths
	a.Steps += b.Steps
	for k, v := range b.PathsEnded {
		a.PathsEnded[k] += v
	}
	for id, o := range b.Obligations {
		x := a.Obligations[id]
		if x == nil {
			a.Obligations[id] = o
			continue
		}
		x.Reached += o.Reached
		x.Concrete += o.Concrete
		x.Discharged += o.Discharged
		x.Violated += o.Violated
		x.Unknown += o.Unknown
		x.Seconds += o.Seconds
		if x.Pos == "" {
			x.Pos = o.Pos
		}
	}
	for k, v := range b.Covers {
		a.Covers[k] += v
	}
	for k := range b.CoverDecl {
		a.CoverDecl[k] = true
	}
	perOb := map[string]int{}
	for _, v := range a.Violations {
		perOb[v.Obligation]++
	}
	for _, v := range b.Violations {
		if perOb[v.Obligation] < 3 {
			perOb[v.Obligation]++
			a.Violations = append(a.Violations, v)
		}
	}
	for _, s := range b.Inconclusive {
		dup := false
		for _, t := range a.Inconclusive {
			if t == s {
				dup = true
			}
		}
		if !dup && len(a.Inconclusive) < 50 {
			a.Inconclusive = append(a.Inconclusive, s)
		}
	}
	for f := range b.Functions {
		a.Functions[f] = true
	}
	a.Stats = addStats(a.Stats, b.Stats)
	a.Terms += b.Terms
	a.Concordance = append(a.Concordance, b.Concordance...)
	if b.cut {
		a.Exhausted = false
	}
}

func addStats(a, b smt.Stats) smt.Stats {
	a.Queries += b.Queries
	a.Sat += b.Sat
	a.Unsat += b.Unsat
	a.Unknown += b.Unknown
	a.Errors += b.Errors
	a.Seconds += b.Seconds
	if a.ByEngine == nil {
		a.ByEngine = map[string]int{}
	}
	for k, v := range b.ByEngine {
		a.ByEngine[k] += v
	}
	return a
}
