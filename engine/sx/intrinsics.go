package sx

import (
	"fmt"
	"go/token"
	"go/types"
	"strings"

	"gosmt/smt"

	"golang.org/x/tools/go/ssa"
)

type intrinsic func(m *Machine, caller *frame, pos token.Pos, fn *ssa.Function, args []Value) Value

var intrinsics map[string]intrinsic

const hpkg = "github.com/jhump/grpctunnel."

type mutexState struct {
	locked  bool
	readers int
}
type condState struct {
	waiters []*condWaiter
}
type condWaiter struct{ woken bool }
type onceState struct {
	done, running bool
}
type wgState struct{ n int }
type timerRec struct{}

func init() {
	intrinsics = map[string]intrinsic{}
	reg := func(name string, f intrinsic) { intrinsics[name] = f }

	// ------------------------------------------------------------------ harness API
	for name, w := range map[string]int{"verifU8": 8, "verifU16": 16, "verifU32": 32, "verifU64": 64, "verifI32": 32, "verifI64": 64, "verifInt": 64} {
		w := w
		kind := strings.TrimPrefix(name, "verif")
		reg(hpkg+name, func(m *Machine, _ *frame, _ token.Pos, _ *ssa.Function, a []Value) Value {
			tag := m.mustStr(a[0])
			v := m.C.Var(m.tagName(tag), smt.BVSort(w))
			m.nondet = append(m.nondet, nondetRec{tag: tag, kind: kind, term: v})
			return v
		})
	}
	reg(hpkg+"verifBool", func(m *Machine, _ *frame, _ token.Pos, _ *ssa.Function, a []Value) Value {
		tag := m.mustStr(a[0])
		v := m.C.Var(m.tagName(tag), smt.BoolSort)
		m.nondet = append(m.nondet, nondetRec{tag: tag, kind: "Bool", term: v})
		return v
	})
	mkBytes := func(kind string) intrinsic {
		return func(m *Machine, _ *frame, _ token.Pos, _ *ssa.Function, a []Value) Value {
			tag := m.mustStr(a[0])
			max := m.concInt(a[1], "verifBytes max")
			name := m.tagName(tag)
			ln := m.C.Var(name+".len", smt.BVSort(64))
			arr := m.C.Var(name+".data", smt.ArrSort)
			c := m.C
			s := &Seq{Len: ln, Max: max, At: func(i *smt.Term) *smt.Term { return c.Select(arr, i) }}
			m.Assume(c.Cmp(smt.OULE, ln, c.BV(uint64(max), 64)))
			m.nondet = append(m.nondet, nondetRec{tag: tag, kind: kind, seq: s, max: minI(max, 128)})
			return s
		}
	}
	reg(hpkg+"verifBytes", mkBytes("Bytes"))
	reg(hpkg+"verifString", mkBytes("String"))
	// verifASCII: a symbolic string of symbolic length <= max whose bytes are printable ASCII
	// (0x20..0x7E) - stated as assumptions on the byte function, so that no loop over the string forks
	reg(hpkg+"verifASCII", func(m *Machine, fr *frame, pos token.Pos, fn *ssa.Function, a []Value) Value {
		v := mkBytes("String")(m, fr, pos, fn, a)
		s := v.(*Seq)
		c := m.C
		for i := 0; i < s.Max; i++ {
			b := s.At(c.BV(uint64(i), 64))
			m.Assume(c.And(c.Cmp(smt.OULE, c.BV(0x20, 8), b), c.Cmp(smt.OULE, b, c.BV(0x7E, 8))))
		}
		return v
	})
	reg(hpkg+"verifAssume", func(m *Machine, _ *frame, _ token.Pos, _ *ssa.Function, a []Value) Value {
		m.Assume(a[0].(*smt.Term))
		return nil
	})
	reg(hpkg+"verifAssert", func(m *Machine, fr *frame, pos token.Pos, _ *ssa.Function, a []Value) Value {
		m.Assert(a[0].(*smt.Term), m.mustStr(a[1]), m.posString(pos))
		return nil
	})
	reg(hpkg+"verifAssertBytesEq", func(m *Machine, fr *frame, pos token.Pos, _ *ssa.Function, a []Value) Value {
		x, y := a[0].(*Seq), a[1].(*Seq)
		c := m.C
		k := c.Var(m.freshName("sk"), smt.BVSort(64))
		differ := c.Or(c.Not(c.Eq(x.Len, y.Len)), c.And(c.Cmp(smt.OULT, k, x.Len), c.Not(c.Eq(x.At(k), y.At(k)))))
		m.Assert(c.Not(differ), m.mustStr(a[2]), m.posString(pos))
		return nil
	})
	reg(hpkg+"verifCover", func(m *Machine, _ *frame, _ token.Pos, _ *ssa.Function, a []Value) Value {
		id := m.mustStr(a[0])
		m.ex.Res.CoverDecl[id] = true
		if m.freshTerritory() {
			m.ex.Res.Covers[id]++
		}
		return nil
	})
	reg(hpkg+"verifChoice", func(m *Machine, _ *frame, _ token.Pos, _ *ssa.Function, a []Value) Value {
		tag := m.mustStr(a[0])
		n := m.concInt(a[1], "verifChoice n")
		k := m.Choose(n, tag)
		m.nondet = append(m.nondet, nondetRec{tag: tag, kind: "Choice", isC: true, cval: k})
		return m.bv64(k)
	})
	reg(hpkg+"verifParam", func(m *Machine, _ *frame, _ token.Pos, _ *ssa.Function, a []Value) Value {
		name := m.mustStr(a[0])
		v, ok := m.ex.Params[name]
		if !ok {
			panic(m.unsupported("harness parameter " + name + " not set in the registry"))
		}
		return m.bv64(v)
	})
	reg(hpkg+"verifGo", func(m *Machine, _ *frame, _ token.Pos, _ *ssa.Function, a []Value) Value {
		m.newThread(m.mustStr(a[0]), a[1], nil)
		return nil
	})
	reg(hpkg+"verifDrain", func(m *Machine, _ *frame, _ token.Pos, _ *ssa.Function, a []Value) Value {
		me := m.cur
		me.inDrain = true
		atRest := func() bool {
			for _, t := range m.threads {
				if t != me && !t.inDrain && m.runnable(t) {
					return false
				}
			}
			return true
		}
		if m.ex.Mode == "conc" {
			// under a schedule verifDrain always ends the step (blocked) and is resumed by a
			// step of its own, whether or not anybody else can run: the native schedule
			// player parks the harness here and needs one entry that resumes it
			me.waiting = atRest
			me.waitOn = "verifDrain"
			m.parked <- struct{}{}
			<-me.resume
			if m.dead {
				panic(abortThread{})
			}
			me.waiting = nil
		}
		m.block(atRest, "verifDrain")
		me.inDrain = false
		m.hbBarrier()
		return nil
	})
	reg(hpkg+"verifYield", func(m *Machine, _ *frame, _ token.Pos, _ *ssa.Function, a []Value) Value {
		m.yield()
		return nil
	})
	reg(hpkg+"verifAllowBlock", func(m *Machine, _ *frame, _ token.Pos, _ *ssa.Function, a []Value) Value {
		m.allowBlock = true
		return nil
	})
	reg(hpkg+"verifOnSync", func(m *Machine, _ *frame, _ token.Pos, _ *ssa.Function, a []Value) Value {
		if isNilValue(a[0]) {
			m.onSync = nil
		} else {
			m.onSync = a[0]
		}
		return nil
	})
	reg(hpkg+"verifOnBlock", func(m *Machine, _ *frame, _ token.Pos, _ *ssa.Function, a []Value) Value {
		m.onBlock = a[0]
		return nil
	})
	reg(hpkg+"verifInlineGo", func(m *Machine, _ *frame, _ token.Pos, _ *ssa.Function, a []Value) Value {
		m.inlineGo = a[0].(*smt.Term).IsTrue()
		return nil
	})
	reg(hpkg+"verifThreadID", func(m *Machine, _ *frame, _ token.Pos, _ *ssa.Function, a []Value) Value {
		return m.bv64(m.cur.ID)
	})
	reg(hpkg+"verifLiveGoroutines", func(m *Machine, _ *frame, _ token.Pos, _ *ssa.Function, a []Value) Value {
		n := 0
		for _, t := range m.threads {
			if t.lib && !t.done {
				n++
			}
		}
		return m.bv64(n)
	})
	reg(hpkg+"verifSpawnCount", func(m *Machine, _ *frame, _ token.Pos, _ *ssa.Function, a []Value) Value {
		return m.bv64(len(m.spawnLog))
	})
	reg(hpkg+"verifBlockedCount", func(m *Machine, _ *frame, _ token.Pos, _ *ssa.Function, a []Value) Value {
		return m.bv64(m.cur.blockCount)
	})
	reg(hpkg+"verifTrace", func(m *Machine, _ *frame, pos token.Pos, _ *ssa.Function, a []Value) Value {
		if m.ex.Debug {
			fmt.Printf("TRACE %s: %s", m.posString(pos), m.mustStr(a[0]))
			if sl, ok := a[1].(Slice); ok {
				for _, v := range sl.A {
					fmt.Printf(" %s", describe(v))
				}
			}
			fmt.Println()
		}
		return nil
	})
	reg(hpkg+"verifDeadline", func(m *Machine, _ *frame, _ token.Pos, _ *ssa.Function, a []Value) Value {
		d, ok := m.findDeadline(a[0])
		if !ok {
			return Tuple{m.C.BV(0, 64), m.C.False()}
		}
		return Tuple{d, m.C.True()}
	})
	reg(hpkg+"verifExpire", func(m *Machine, fr *frame, pos token.Pos, _ *ssa.Function, a []Value) Value {
		return m.C.Bool(m.expireDeadline(fr, pos, a[0]))
	})
	reg(hpkg+"verifSameDuration", func(m *Machine, _ *frame, _ token.Pos, _ *ssa.Function, a []Value) Value {
		return m.C.Eq(a[0].(*smt.Term), a[1].(*smt.Term))
	})
	reg(hpkg+"verifObserve", func(m *Machine, _ *frame, _ token.Pos, _ *ssa.Function, a []Value) Value {
		m.observed = append(m.observed, obsTerm{tag: m.mustStr(a[0]), t: a[1].(*smt.Term)})
		return nil
	})
	reg(hpkg+"verifMutexHeld", func(m *Machine, _ *frame, _ token.Pos, _ *ssa.Function, a []Value) Value {
		p := a[0].(Iface).V.(*Value)
		st := m.mutexes[p]
		return m.C.Bool(st != nil && (st.locked || st.readers > 0))
	})
	reg(hpkg+"verifWaitGroupCount", func(m *Machine, _ *frame, _ token.Pos, _ *ssa.Function, a []Value) Value {
		return m.bv64(m.wg(a[0].(*Value)).n)
	})
	reg(hpkg+"verifWire", func(m *Machine, _ *frame, _ token.Pos, _ *ssa.Function, a []Value) Value {
		s := a[0].(*Seq)
		if s.Nil {
			return m.concSeq(nil)
		}
		return s
	})
	reg(hpkg+"verifNative", func(m *Machine, _ *frame, _ token.Pos, _ *ssa.Function, a []Value) Value {
		return m.C.False()
	})
	reg(hpkg+"verifMsg", func(m *Machine, _ *frame, _ token.Pos, fn *ssa.Function, a []Value) Value {
		// a proto message whose serialised form is the given bytes (see proto.Marshal)
		t := fn.Signature.Results().At(0).Type()
		st := m.zero(t.(*types.Pointer).Elem())
		p := new(Value)
		*p = st
		m.setBytesField(p, t, a[0].(*Seq))
		return p
	})
	reg(hpkg+"verifMsgBytes", func(m *Machine, _ *frame, _ token.Pos, fn *ssa.Function, a []Value) Value {
		p := a[0].(*Value)
		return m.getBytesField(p, fn.Signature.Params().At(0).Type())
	})

	// ------------------------------------------------------------------ sync
	lock := func(m *Machine, fr *frame, pos token.Pos, _ *ssa.Function, a []Value) Value {
		m.syncPoint(fr)
		p := a[0].(*Value)
		st := m.mutex(p)
		if st.locked || st.readers > 0 {
			m.block(func() bool { return !st.locked && st.readers == 0 }, "Mutex.Lock at "+m.posString(pos))
		}
		st.locked = true
		m.hbAcquire(rwKey{p, false})
		m.hbAcquire(rwKey{p, true})
		return nil
	}
	unlock := func(m *Machine, fr *frame, pos token.Pos, _ *ssa.Function, a []Value) Value {
		m.syncPoint(fr)
		st := m.mutex(a[0].(*Value))
		if !st.locked {
			panic(targetPanic{msg: "sync: unlock of unlocked mutex", pos: m.posString(pos)})
		}
		st.locked = false
		m.hbRelease(rwKey{a[0].(*Value), false})
		m.syncAfter(fr)
		return nil
	}
	reg("(*sync.Mutex).Lock", lock)
	reg("(*sync.Mutex).Unlock", unlock)
	reg("(*sync.RWMutex).Lock", lock)
	reg("(*sync.RWMutex).Unlock", unlock)
	reg("(*sync.Mutex).TryLock", func(m *Machine, fr *frame, pos token.Pos, _ *ssa.Function, a []Value) Value {
		m.syncPoint(fr)
		st := m.mutex(a[0].(*Value))
		if st.locked {
			return m.C.False()
		}
		st.locked = true
		m.hbAcquire(rwKey{a[0].(*Value), false})
		m.hbAcquire(rwKey{a[0].(*Value), true})
		return m.C.True()
	})
	reg("(*sync.RWMutex).RLock", func(m *Machine, fr *frame, pos token.Pos, _ *ssa.Function, a []Value) Value {
		m.syncPoint(fr)
		st := m.mutex(a[0].(*Value))
		if st.locked {
			m.block(func() bool { return !st.locked }, "RWMutex.RLock at "+m.posString(pos))
		}
		st.readers++
		m.hbAcquire(rwKey{a[0].(*Value), false})
		return nil
	})
	reg("(*sync.RWMutex).RUnlock", func(m *Machine, fr *frame, pos token.Pos, _ *ssa.Function, a []Value) Value {
		m.syncPoint(fr)
		st := m.mutex(a[0].(*Value))
		if st.readers <= 0 {
			panic(targetPanic{msg: "sync: RUnlock of unlocked RWMutex", pos: m.posString(pos)})
		}
		st.readers--
		m.hbReleaseJoin(rwKey{a[0].(*Value), true})
		m.syncAfter(fr)
		return nil
	})
	reg("(*sync.Once).Do", func(m *Machine, fr *frame, pos token.Pos, _ *ssa.Function, a []Value) Value {
		m.syncPoint(fr)
		p := a[0].(*Value)
		st := m.onces[p]
		if st == nil {
			st = &onceState{}
			m.onces[p] = st
		}
		if st.done {
			m.hbAcquire(onceKey{p})
			return nil
		}
		if st.running {
			m.block(func() bool { return st.done }, "Once.Do")
			m.hbAcquire(onceKey{p})
			return nil
		}
		st.running = true
		defer func() { st.done = true; st.running = false; m.hbRelease(onceKey{p}) }()
		m.call(fr, pos, a[1], nil)
		return nil
	})
	reg("(*sync.WaitGroup).Add", func(m *Machine, fr *frame, pos token.Pos, _ *ssa.Function, a []Value) Value {
		m.syncPoint(fr)
		st := m.wg(a[0].(*Value))
		st.n += m.concInt(a[1], "WaitGroup.Add delta")
		if st.n < 0 {
			panic(targetPanic{msg: "sync: negative WaitGroup counter", pos: m.posString(pos)})
		}
		return nil
	})
	reg("(*sync.WaitGroup).Done", func(m *Machine, fr *frame, pos token.Pos, _ *ssa.Function, a []Value) Value {
		m.syncPoint(fr)
		st := m.wg(a[0].(*Value))
		st.n--
		m.hbReleaseJoin(wgKey{a[0].(*Value)})
		if st.n < 0 {
			panic(targetPanic{msg: "sync: negative WaitGroup counter", pos: m.posString(pos)})
		}
		m.syncAfter(fr)
		return nil
	})
	reg("(*sync.WaitGroup).Wait", func(m *Machine, fr *frame, pos token.Pos, _ *ssa.Function, a []Value) Value {
		m.syncPoint(fr)
		st := m.wg(a[0].(*Value))
		if st.n > 0 {
			m.block(func() bool { return st.n == 0 }, "WaitGroup.Wait at "+m.posString(pos))
		}
		m.hbAcquire(wgKey{a[0].(*Value)})
		return nil
	})
	reg("(*sync.Cond).Wait", func(m *Machine, fr *frame, pos token.Pos, fn *ssa.Function, a []Value) Value {
		m.syncPoint(fr)
		p := a[0].(*Value)
		L := m.condLocker(p)
		lp, isMutex := L.V.(*Value)
		if !isMutex {
			panic(m.unsupported("sync.Cond with a Locker that is not a *sync.Mutex / *sync.RWMutex"))
		}
		mu := m.mutex(lp)
		st := m.cond(p)
		w := &condWaiter{}
		st.waiters = append(st.waiters, w)
		// Wait = unlock, park until signalled, lock again: one operation of the
		// runtime (no scheduling points of its own inside)
		if !mu.locked {
			panic(targetPanic{msg: "sync: unlock of unlocked mutex (Cond.Wait)", pos: m.posString(pos)})
		}
		mu.locked = false
		m.hbRelease(rwKey{lp, false})
		m.block(func() bool { return w.woken && !mu.locked && mu.readers == 0 }, "Cond.Wait at "+m.posString(pos))
		mu.locked = true
		m.hbAcquire(rwKey{lp, false})
		m.hbAcquire(rwKey{lp, true})
		return nil
	})
	reg("(*sync.Cond).Signal", func(m *Machine, fr *frame, pos token.Pos, _ *ssa.Function, a []Value) Value {
		m.syncPoint(fr)
		st := m.cond(a[0].(*Value))
		if len(st.waiters) > 0 {
			st.waiters[0].woken = true
			st.waiters = st.waiters[1:]
		}
		m.syncAfter(fr)
		return nil
	})
	reg("(*sync.Cond).Broadcast", func(m *Machine, fr *frame, pos token.Pos, _ *ssa.Function, a []Value) Value {
		m.syncPoint(fr)
		st := m.cond(a[0].(*Value))
		for _, w := range st.waiters {
			w.woken = true
		}
		st.waiters = nil
		m.syncAfter(fr)
		return nil
	})

	// ------------------------------------------------------------------ sync/atomic
	for _, ty := range []string{"Uint32", "Int32", "Uint64", "Int64", "Uintptr"} {
		base := "(*sync/atomic." + ty + ")."
		reg(base+"Load", func(m *Machine, fr *frame, _ token.Pos, _ *ssa.Function, a []Value) Value {
			m.syncPoint(fr)
			m.hbAtomic(0, m.atomicCell(a[0]))
			return *m.atomicCell(a[0])
		})
		reg(base+"Store", func(m *Machine, fr *frame, _ token.Pos, _ *ssa.Function, a []Value) Value {
			m.syncPoint(fr)
			m.hbAtomic(1, m.atomicCell(a[0]))
			*m.atomicCell(a[0]) = a[1]
			m.syncAfter(fr)
			return nil
		})
		reg(base+"Add", func(m *Machine, fr *frame, _ token.Pos, _ *ssa.Function, a []Value) Value {
			m.syncPoint(fr)
			m.hbAtomic(2, m.atomicCell(a[0]))
			c := m.atomicCell(a[0])
			n := m.C.Bin(smt.OAdd, (*c).(*smt.Term), a[1].(*smt.Term))
			*c = n
			return n
		})
		reg(base+"Swap", func(m *Machine, fr *frame, _ token.Pos, _ *ssa.Function, a []Value) Value {
			m.syncPoint(fr)
			m.hbAtomic(2, m.atomicCell(a[0]))
			c := m.atomicCell(a[0])
			old := *c
			*c = a[1]
			return old
		})
		reg(base+"CompareAndSwap", func(m *Machine, fr *frame, _ token.Pos, _ *ssa.Function, a []Value) Value {
			m.syncPoint(fr)
			m.hbAtomic(2, m.atomicCell(a[0]))
			c := m.atomicCell(a[0])
			eq := m.C.Eq((*c).(*smt.Term), a[1].(*smt.Term))
			if m.Branch(eq) {
				*c = a[2]
				return m.C.True()
			}
			return m.C.False()
		})
	}
	reg("(*sync/atomic.Bool).Load", func(m *Machine, fr *frame, _ token.Pos, _ *ssa.Function, a []Value) Value {
		m.syncPoint(fr)
		m.hbAtomic(0, m.atomicCell(a[0]))
		v := (*m.atomicCell(a[0])).(*smt.Term)
		return m.C.Not(m.C.Eq(v, m.C.BV(0, 32)))
	})
	reg("(*sync/atomic.Bool).Store", func(m *Machine, fr *frame, _ token.Pos, _ *ssa.Function, a []Value) Value {
		m.syncPoint(fr)
		m.hbAtomic(1, m.atomicCell(a[0]))
		*m.atomicCell(a[0]) = m.C.Ite(a[1].(*smt.Term), m.C.BV(1, 32), m.C.BV(0, 32))
		m.syncAfter(fr)
		return nil
	})
	reg("(*sync/atomic.Bool).CompareAndSwap", func(m *Machine, fr *frame, _ token.Pos, _ *ssa.Function, a []Value) Value {
		m.syncPoint(fr)
		m.hbAtomic(2, m.atomicCell(a[0]))
		c := m.atomicCell(a[0])
		cur := m.C.Not(m.C.Eq((*c).(*smt.Term), m.C.BV(0, 32)))
		if m.Branch(m.C.Eq(cur, a[1].(*smt.Term))) {
			*c = m.C.Ite(a[2].(*smt.Term), m.C.BV(1, 32), m.C.BV(0, 32))
			return m.C.True()
		}
		return m.C.False()
	})
	// atomic.Pointer[T]: fields (_ [0]*T, _ noCopy, v unsafe.Pointer)
	reg("(*sync/atomic.Pointer).Load", func(m *Machine, fr *frame, _ token.Pos, _ *ssa.Function, a []Value) Value {
		m.syncPoint(fr)
		m.hbAtomic(0, m.lastField(a[0]))
		return *m.lastField(a[0])
	})
	reg("(*sync/atomic.Pointer).Store", func(m *Machine, fr *frame, _ token.Pos, _ *ssa.Function, a []Value) Value {
		m.syncPoint(fr)
		m.hbAtomic(1, m.lastField(a[0]))
		*m.lastField(a[0]) = a[1]
		m.syncAfter(fr)
		return nil
	})
	reg("(*sync/atomic.Pointer).Swap", func(m *Machine, fr *frame, _ token.Pos, _ *ssa.Function, a []Value) Value {
		m.syncPoint(fr)
		m.hbAtomic(2, m.lastField(a[0]))
		c := m.lastField(a[0])
		old := *c
		*c = a[1]
		return old
	})
	reg("(*sync/atomic.Pointer).CompareAndSwap", func(m *Machine, fr *frame, pos token.Pos, _ *ssa.Function, a []Value) Value {
		m.syncPoint(fr)
		m.hbAtomic(2, m.lastField(a[0]))
		c := m.lastField(a[0])
		if m.equal(*c, a[1], pos).IsTrue() {
			*c = a[2]
			return m.C.True()
		}
		return m.C.False()
	})
	// atomic.Value: field v any
	reg("(*sync/atomic.Value).Load", func(m *Machine, fr *frame, _ token.Pos, _ *ssa.Function, a []Value) Value {
		m.syncPoint(fr)
		m.hbAtomic(0, m.lastField(a[0]))
		return *m.lastField(a[0])
	})
	reg("(*sync/atomic.Value).Store", func(m *Machine, fr *frame, pos token.Pos, _ *ssa.Function, a []Value) Value {
		m.syncPoint(fr)
		m.hbAtomic(1, m.lastField(a[0]))
		if a[1].(Iface).T == nil {
			panic(targetPanic{msg: "sync/atomic: store of nil value into Value", pos: m.posString(pos)})
		}
		*m.lastField(a[0]) = a[1]
		m.syncAfter(fr)
		return nil
	})
	for _, w := range []string{"Int32", "Uint32", "Int64", "Uint64"} {
		reg("sync/atomic.Load"+w, func(m *Machine, fr *frame, _ token.Pos, _ *ssa.Function, a []Value) Value {
			m.syncPoint(fr)
			m.hbAtomic(0, a[0].(*Value))
			return *(a[0].(*Value))
		})
		reg("sync/atomic.Store"+w, func(m *Machine, fr *frame, _ token.Pos, _ *ssa.Function, a []Value) Value {
			m.syncPoint(fr)
			m.hbAtomic(1, a[0].(*Value))
			*(a[0].(*Value)) = a[1]
			return nil
		})
		reg("sync/atomic.Add"+w, func(m *Machine, fr *frame, _ token.Pos, _ *ssa.Function, a []Value) Value {
			m.syncPoint(fr)
			m.hbAtomic(2, a[0].(*Value))
			p := a[0].(*Value)
			n := m.C.Bin(smt.OAdd, (*p).(*smt.Term), a[1].(*smt.Term))
			*p = n
			return n
		})
		reg("sync/atomic.CompareAndSwap"+w, func(m *Machine, fr *frame, _ token.Pos, _ *ssa.Function, a []Value) Value {
			m.syncPoint(fr)
			m.hbAtomic(2, a[0].(*Value))
			p := a[0].(*Value)
			if m.Branch(m.C.Eq((*p).(*smt.Term), a[1].(*smt.Term))) {
				*p = a[2]
				return m.C.True()
			}
			return m.C.False()
		})
	}

	// ------------------------------------------------------------------ errors / fmt
	reg("errors.Is", func(m *Machine, fr *frame, pos token.Pos, _ *ssa.Function, a []Value) Value {
		return m.C.Bool(m.errorsIs(fr, pos, a[0].(Iface), a[1].(Iface)))
	})
	reg("errors.As", func(m *Machine, fr *frame, pos token.Pos, _ *ssa.Function, a []Value) Value {
		err := a[0].(Iface)
		tgt := a[1].(Iface)
		pt, ok := tgt.T.(*types.Pointer)
		if !ok {
			panic(targetPanic{msg: "errors: target must be a non-nil pointer", pos: m.posString(pos)})
		}
		want := pt.Elem()
		for depth := 0; err.T != nil && depth < 16; depth++ {
			match := false
			if it, isI := want.Underlying().(*types.Interface); isI {
				match = types.Implements(err.T, it)
			} else {
				match = types.Identical(err.T, want)
			}
			if match {
				dst := tgt.V.(*Value)
				if _, isI := want.Underlying().(*types.Interface); isI {
					*dst = err
				} else {
					*dst = err.V
				}
				return m.C.True()
			}
			nx, ok := m.unwrap(fr, pos, err)
			if !ok {
				break
			}
			err = nx
		}
		return m.C.False()
	})
	sprintf := func(m *Machine, fr *frame, pos token.Pos, fn *ssa.Function, a []Value) Value {
		return m.strVal(m.formatted(a))
	}
	reg("fmt.Sprintf", sprintf)
	reg("fmt.Sprint", sprintf)
	reg("fmt.Sprintln", sprintf)
	reg("fmt.Errorf", func(m *Machine, fr *frame, pos token.Pos, fn *ssa.Function, a []Value) Value {
		msg := m.strVal(m.formatted(a))
		format, _ := a[0].(*Seq).GoString()
		var wrapped Iface
		if strings.Contains(format, "%w") {
			if sl, ok := a[1].(Slice); ok {
				for _, v := range sl.A {
					if iv, ok := v.(Iface); ok && iv.T != nil && types.Implements(iv.T, errorIface()) {
						wrapped = iv
						break
					}
				}
			}
		}
		if wrapped.T != nil {
			t := m.namedType("fmt", "wrapError")
			p := new(Value)
			*p = Struct{msg, wrapped}
			return Iface{T: types.NewPointer(t), V: p}
		}
		return m.newError(msg)
	})
	reg("internal/stringslite.Clone", func(m *Machine, _ *frame, _ token.Pos, _ *ssa.Function, a []Value) Value { return a[0] })
	reg("strings.Clone", func(m *Machine, _ *frame, _ token.Pos, _ *ssa.Function, a []Value) Value { return a[0] })
	// strings.ToValidUTF8 (its body builds the result with strings.Builder, i.e. unsafe pointers): on
	// concrete arguments the real function; on a symbolic string only where it is the identity
	reg("strings.ToValidUTF8", func(m *Machine, _ *frame, _ token.Pos, _ *ssa.Function, a []Value) Value {
		s := a[0].(*Seq)
		if g, ok := s.GoString(); ok {
			return m.strVal(strings.ToValidUTF8(g, m.mustStr(a[1])))
		}
		if s.Max >= 0 && s.Max <= 64 {
			c := m.C
			ascii := c.True()
			for i := 0; i < s.Max; i++ {
				ascii = c.And(ascii, c.Cmp(smt.OULT, s.At(c.BV(uint64(i), 64)), c.BV(0x80, 8)))
			}
			if m.S.Check(c.Not(ascii)) == smt.Unsat {
				return s // all bytes ASCII on this path: already valid
			}
		}
		panic(m.unsupported("strings.ToValidUTF8 on a symbolic string that may hold non-ASCII bytes"))
	})
	// maps.clone (runtime: a shallow copy of the map - same keys, the values copied by assignment)
	reg("maps.clone", func(m *Machine, _ *frame, _ token.Pos, _ *ssa.Function, a []Value) Value {
		src, ok := a[0].(*Map)
		if !ok || src == nil {
			return a[0]
		}
		dst := &Map{KeyT: src.KeyT}
		for _, e := range src.Entries {
			dst.Entries = append(dst.Entries, &mapEntry{K: e.K, V: copyVal(e.V)})
		}
		return dst
	})
	reg("strings.ToLower", func(m *Machine, _ *frame, _ token.Pos, _ *ssa.Function, a []Value) Value {
		s := a[0].(*Seq)
		if g, ok := s.GoString(); ok {
			return m.strVal(strings.ToLower(g))
		}
		c := m.C
		at := s.At
		return &Seq{Len: s.Len, Max: s.Max, At: func(i *smt.Term) *smt.Term {
			b := at(i)
			up := c.And(c.Cmp(smt.OULE, c.BV('A', 8), b), c.Cmp(smt.OULE, b, c.BV('Z', 8)))
			return c.Ite(up, c.Bin(smt.OAdd, b, c.BV(32, 8)), b)
		}}
	})
	reg("internal/bytealg.IndexByteString", func(m *Machine, _ *frame, _ token.Pos, _ *ssa.Function, a []Value) Value {
		return m.indexByte(a[0].(*Seq), a[1].(*smt.Term))
	})
	reg("internal/bytealg.IndexByte", func(m *Machine, _ *frame, _ token.Pos, _ *ssa.Function, a []Value) Value {
		return m.indexByte(a[0].(*Seq), a[1].(*smt.Term))
	})
	countBytes := func(m *Machine, _ *frame, _ token.Pos, _ *ssa.Function, a []Value) Value {
		s := a[0].(*Seq)
		b := a[1].(*smt.Term)
		if g, ok := s.GoString(); ok && b.IsConst() {
			return m.bv64(strings.Count(g, string([]byte{byte(b.Val)})))
		}
		if s.Max < 0 || s.Max > 256 {
			panic(m.unsupported("bytealg.Count on a byte sequence without a small length bound"))
		}
		c := m.C
		n := c.BV(0, 64)
		for i := 0; i < s.Max; i++ {
			ix := c.BV(uint64(i), 64)
			hit := c.And(c.Cmp(smt.OULT, ix, s.Len), c.Eq(s.At(ix), b))
			n = c.Bin(smt.OAdd, n, c.Ite(hit, c.BV(1, 64), c.BV(0, 64)))
		}
		return n
	}
	reg("internal/bytealg.CountString", countBytes)
	reg("internal/bytealg.Count", countBytes)

	// ------------------------------------------------------------------ context
	reg("context.WithValue", func(m *Machine, _ *frame, pos token.Pos, _ *ssa.Function, a []Value) Value {
		parent := a[0].(Iface)
		if parent.T == nil {
			panic(targetPanic{msg: "cannot create context from nil parent", pos: m.posString(pos)})
		}
		key := a[1].(Iface)
		if key.T == nil {
			panic(targetPanic{msg: "nil key", pos: m.posString(pos)})
		}
		if !types.Comparable(key.T) {
			panic(targetPanic{msg: "key is not comparable", pos: m.posString(pos)})
		}
		t := m.namedType("context", "valueCtx")
		p := new(Value)
		*p = Struct{parent, key, a[2]}
		return Iface{T: types.NewPointer(t), V: p}
	})
	withDeadline := func(m *Machine, fr *frame, pos token.Pos, parent Value, d *smt.Term) Value {
		wc := m.pkgFunc("context", "WithCancel")
		res := m.call(fr, pos, wc, []Value{parent}).(Tuple)
		ctx := res[0].(Iface)
		m.ghost["deadline:"+fmt.Sprintf("%p", ctx.V.(*Value))] = d
		m.deadlineCtx = append(m.deadlineCtx, ctx)
		if m.Branch(m.C.Cmp(smt.OSLE, d, m.C.BV(0, 64))) {
			m.cancelCtx(fr, pos, ctx, "DeadlineExceeded")
		}
		return res
	}
	reg("context.WithTimeout", func(m *Machine, fr *frame, pos token.Pos, _ *ssa.Function, a []Value) Value {
		return withDeadline(m, fr, pos, a[0], a[1].(*smt.Term))
	})

	// ------------------------------------------------------------------ proto
	reg("google.golang.org/protobuf/proto.Clone", func(m *Machine, _ *frame, _ token.Pos, _ *ssa.Function, a []Value) Value {
		msg := a[0].(Iface)
		if msg.T == nil {
			return msg
		}
		p := msg.V.(*Value)
		if p == nil {
			return msg
		}
		return Iface{T: msg.T, V: m.deepCloneMsg(p)}
	})
	reg("google.golang.org/protobuf/proto.Marshal", func(m *Machine, _ *frame, _ token.Pos, _ *ssa.Function, a []Value) Value {
		msg := a[0].(Iface)
		if msg.T == nil {
			return Tuple{m.nilSeq(), Iface{}}
		}
		return Tuple{m.getBytesField(msg.V.(*Value), msg.T), Iface{}}
	})
	reg("google.golang.org/protobuf/proto.Unmarshal", func(m *Machine, _ *frame, _ token.Pos, _ *ssa.Function, a []Value) Value {
		msg := a[1].(Iface)
		m.setBytesField(msg.V.(*Value), msg.T, a[0].(*Seq))
		return Iface{}
	})

	// ------------------------------------------------------------------ grpchan
	reg("(github.com/fullstorydev/grpchan.HandlerMap).RegisterService", func(m *Machine, _ *frame, pos token.Pos, fn *ssa.Function, a []Value) Value {
		mp := a[0].(*Map)
		desc := a[1].(*Value)
		name := (*desc).(Struct)[0] // ServiceDesc.ServiceName
		if e := m.mapFind(mp, name, pos); e != nil {
			panic(targetPanic{msg: "service handler already registered", pos: m.posString(pos)})
		}
		m.mapUpdate(mp, name, Struct{desc, a[2]})
		return nil
	})

	// ------------------------------------------------------------------ reflect (as used by Invoke)
	reg("reflect.ValueOf", func(m *Machine, _ *frame, _ token.Pos, _ *ssa.Function, a []Value) Value {
		return Struct{a[0].(Iface), nil, nil}
	})
	reg("reflect.Indirect", func(m *Machine, _ *frame, _ token.Pos, _ *ssa.Function, a []Value) Value {
		iv := a[0].(Struct)[0].(Iface)
		if pt, ok := iv.T.(*types.Pointer); ok {
			return Struct{Iface{T: pt.Elem(), V: nil}, iv.V, nil}
		}
		return a[0]
	})
	reg("(reflect.Value).Type", func(m *Machine, _ *frame, _ token.Pos, _ *ssa.Function, a []Value) Value {
		iv := a[0].(Struct)[0].(Iface)
		return Iface{T: reflectTypeMarker, V: iv.T}
	})
	reg("reflect.New", func(m *Machine, _ *frame, _ token.Pos, _ *ssa.Function, a []Value) Value {
		t := a[0].(Iface).V.(types.Type)
		p := new(Value)
		*p = m.zero(t)
		return Struct{Iface{T: types.NewPointer(t), V: p}, nil, nil}
	})
	reg("(reflect.Value).Interface", func(m *Machine, _ *frame, _ token.Pos, _ *ssa.Function, a []Value) Value {
		return a[0].(Struct)[0].(Iface)
	})
}

var reflectTypeMarker = types.NewNamed(types.NewTypeName(token.NoPos, nil, "reflectType", nil), types.NewStruct(nil, nil), nil)

var errIface *types.Interface

func errorIface() *types.Interface {
	return types.Universe.Lookup("error").Type().Underlying().(*types.Interface)
}

func minI(a, b int) int {
	if a < b {
		return a
	}
	return b
}

// ---------------------------------------------------------------------------
// helpers

func (m *Machine) mustStr(v Value) string {
	s, ok := v.(*Seq)
	if ok {
		if g, ok := s.GoString(); ok {
			return g
		}
	}
	panic(m.unsupported("string argument must be a literal"))
}

func (m *Machine) mutex(p *Value) *mutexState {
	st := m.mutexes[p]
	if st == nil {
		st = &mutexState{}
		m.mutexes[p] = st
	}
	return st
}

func (m *Machine) cond(p *Value) *condState {
	st := m.conds[p]
	if st == nil {
		st = &condState{}
		m.conds[p] = st
	}
	return st
}

func (m *Machine) wg(p *Value) *wgState {
	st := m.wgs[p]
	if st == nil {
		st = &wgState{}
		m.wgs[p] = st
	}
	return st
}

// condLocker reads field L of a sync.Cond.
func (m *Machine) condLocker(p *Value) Iface {
	st := (*p).(Struct)
	for _, f := range st {
		if iv, ok := f.(Iface); ok && iv.T != nil {
			return iv
		}
	}
	panic(targetPanic{msg: "sync.Cond with nil L", pos: "?"})
}

func (m *Machine) invoke(fr *frame, pos token.Pos, recv Iface, method string) Value {
	ms := m.prog.MethodSets.MethodSet(recv.T)
	for i := 0; i < ms.Len(); i++ {
		if ms.At(i).Obj().Name() == method {
			f := m.prog.MethodValue(ms.At(i))
			return m.call(fr, pos, f, []Value{recv.V})
		}
	}
	panic(fmt.Sprintf("engine: no method %s on %s", method, recv.T))
}

func (m *Machine) invokeArgs(fr *frame, pos token.Pos, recv Iface, method string, args ...Value) (Value, bool) {
	ms := m.prog.MethodSets.MethodSet(recv.T)
	for i := 0; i < ms.Len(); i++ {
		if ms.At(i).Obj().Name() == method {
			f := m.prog.MethodValue(ms.At(i))
			return m.call(fr, pos, f, append([]Value{recv.V}, args...)), true
		}
	}
	return nil, false
}

// atomicCell returns the value field (the last one) of an atomic.XxxNN struct.
func (m *Machine) atomicCell(v Value) *Value { return m.lastField(v) }

func (m *Machine) lastField(v Value) *Value {
	p := v.(*Value)
	if p == nil {
		panic(targetPanic{msg: "nil pointer dereference (atomic)", pos: "?"})
	}
	st := (*p).(Struct)
	return &st[len(st)-1]
}

func (m *Machine) namedType(pkgPath, name string) types.Type {
	p := m.prog.ImportedPackage(pkgPath)
	if p == nil {
		panic(m.unsupported("package " + pkgPath + " not loaded"))
	}
	t := p.Type(name)
	if t == nil {
		panic(m.unsupported("type " + pkgPath + "." + name + " not found"))
	}
	return t.Type()
}

func (m *Machine) pkgFunc(pkgPath, name string) *ssa.Function {
	p := m.prog.ImportedPackage(pkgPath)
	if p == nil {
		panic(m.unsupported("package " + pkgPath + " not loaded"))
	}
	f := p.Func(name)
	if f == nil {
		panic(m.unsupported("func " + pkgPath + "." + name + " not found"))
	}
	return f
}

func (m *Machine) pkgGlobal(pkgPath, name string) *Value {
	p := m.prog.ImportedPackage(pkgPath)
	if p == nil {
		panic(m.unsupported("package " + pkgPath + " not loaded"))
	}
	g := p.Var(name)
	if g == nil {
		panic(m.unsupported("var " + pkgPath + "." + name + " not found"))
	}
	return m.globalAddr(g)
}

func (m *Machine) newError(msg *Seq) Iface {
	t := m.namedType("errors", "errorString")
	p := new(Value)
	*p = Struct{msg}
	return Iface{T: types.NewPointer(t), V: p}
}

func (m *Machine) formatted(a []Value) string {
	var sb strings.Builder
	if s, ok := a[0].(*Seq); ok {
		if g, ok := s.GoString(); ok {
			sb.WriteString(g)
		}
	}
	return "«" + sb.String() + "»"
}

func (m *Machine) unwrap(fr *frame, pos token.Pos, err Iface) (Iface, bool) {
	r, ok := m.invokeArgs(fr, pos, err, "Unwrap")
	if !ok {
		return Iface{}, false
	}
	if iv, ok := r.(Iface); ok && iv.T != nil {
		return iv, true
	}
	return Iface{}, false
}

func (m *Machine) errorsIs(fr *frame, pos token.Pos, err, target Iface) bool {
	for depth := 0; depth < 16; depth++ {
		if err.T == nil {
			return target.T == nil
		}
		if target.T != nil && types.Comparable(target.T) && types.Identical(err.T, target.T) {
			if m.equal(err, target, pos).IsTrue() {
				return true
			}
		}
		if r, ok := m.invokeArgs(fr, pos, err, "Is", target); ok {
			if t, ok := r.(*smt.Term); ok && t.IsTrue() {
				return true
			}
		}
		nx, ok := m.unwrap(fr, pos, err)
		if !ok {
			return false
		}
		err = nx
	}
	return false
}

// indexByte models bytealg.IndexByte(String): first index of c in s, or -1.
func (m *Machine) indexByte(s *Seq, b *smt.Term) Value {
	c := m.C
	if g, ok := s.GoString(); ok && b.IsConst() {
		return m.bv64(strings.IndexByte(g, byte(b.Val)))
	}
	if s.Max < 0 || s.Max > 256 {
		panic(m.unsupported("IndexByte on a byte sequence without a small length bound"))
	}
	r := c.Var(m.freshName("idx"), smt.BVSort(64))
	minus1 := c.BV(^uint64(0), 64)
	var none, before []*smt.Term
	for i := 0; i < s.Max; i++ {
		ix := c.BV(uint64(i), 64)
		ne := c.Not(c.Eq(s.At(ix), b))
		none = append(none, c.Implies(c.Cmp(smt.OULT, ix, s.Len), ne))
		before = append(before, c.Implies(c.Cmp(smt.OULT, ix, r), ne))
	}
	notFound := c.And(append([]*smt.Term{c.Eq(r, minus1)}, none...)...)
	found := c.And(append([]*smt.Term{c.Cmp(smt.OULT, r, s.Len), c.Eq(s.At(r), b)}, before...)...)
	m.Assume(c.Or(notFound, found))
	return r
}

// ---------------------------------------------------------------------------
// context helpers

func (m *Machine) findDeadline(ctx Value) (*smt.Term, bool) {
	iv, ok := ctx.(Iface)
	for depth := 0; ok && iv.T != nil && depth < 64; depth++ {
		p, isP := iv.V.(*Value)
		if !isP || p == nil {
			return nil, false
		}
		if d, ok := m.ghost["deadline:"+fmt.Sprintf("%p", p)]; ok {
			return d.(*smt.Term), true
		}
		st, isS := (*p).(Struct)
		if !isS || len(st) == 0 {
			return nil, false
		}
		iv, ok = st[0].(Iface)
	}
	return nil, false
}

func (m *Machine) cancelCtx(fr *frame, pos token.Pos, ctx Iface, which string) {
	errp := m.pkgGlobal("context", which)
	errv := (*errp).(Iface)
	f := m.prog.LookupMethod(ctx.T, m.prog.ImportedPackage("context").Pkg, "cancel")
	if f == nil {
		panic(m.unsupported("context value of type " + ctx.T.String() + " has no cancel method"))
	}
	m.call(fr, pos, f, []Value{ctx.V, m.C.True(), errv, Iface{}})
}

// expireDeadline fires the deadline of the innermost deadline-carrying
// ancestor of ctx (verifExpire). Reports whether there was one.
func (m *Machine) expireDeadline(fr *frame, pos token.Pos, ctx Value) bool {
	iv, ok := ctx.(Iface)
	for depth := 0; ok && iv.T != nil && depth < 64; depth++ {
		p, isP := iv.V.(*Value)
		if !isP || p == nil {
			return false
		}
		if _, ok := m.ghost["deadline:"+fmt.Sprintf("%p", p)]; ok {
			m.cancelCtx(fr, pos, iv, "DeadlineExceeded")
			return true
		}
		st, isS := (*p).(Struct)
		if !isS || len(st) == 0 {
			return false
		}
		iv, ok = st[0].(Iface)
	}
	return false
}

// ---------------------------------------------------------------------------
// proto helpers

func (m *Machine) bytesFieldIndex(t types.Type) int {
	pt, ok := t.(*types.Pointer)
	if !ok {
		return -1
	}
	st, ok := pt.Elem().Underlying().(*types.Struct)
	if !ok {
		return -1
	}
	for i := 0; i < st.NumFields(); i++ {
		f := st.Field(i)
		if f.Exported() && isByteSeqType(f.Type()) && !isString(f.Type()) {
			return i
		}
	}
	return -1
}

func (m *Machine) getBytesField(p *Value, t types.Type) *Seq {
	i := m.bytesFieldIndex(t)
	if i < 0 || p == nil {
		return m.concSeq(nil)
	}
	s := (*p).(Struct)[i].(*Seq)
	if s.Nil {
		return m.concSeq(nil)
	}
	return s
}

func (m *Machine) setBytesField(p *Value, t types.Type, b *Seq) {
	i := m.bytesFieldIndex(t)
	if i < 0 || p == nil {
		return
	}
	(*p).(Struct)[i] = b
}

func (m *Machine) deepCloneMsg(p *Value) *Value {
	n := new(Value)
	*n = copyVal(*p)
	return n
}
