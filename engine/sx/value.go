// Package sx is a symbolic interpreter for go/ssa: concrete heap topology,
// symbolic scalars and byte sequences, path exploration by re-execution.
package sx

import (
	"fmt"
	"go/types"
	"strings"

	"gosmt/smt"

	"golang.org/x/tools/go/ssa"
)

// Value is one of:
//
//	*smt.Term           bool / integer scalars (Bool or BV sort)
//	float64             concrete floats only
//	*Seq                string and []byte
//	*Value              pointer (nil pointer = (*Value)(nil))
//	Struct, Array       by-value aggregates (copied on load/store)
//	Slice               non-byte slices (host slice aliasing)
//	Tuple
//	Iface               interface value
//	*Map, *Chan
//	*Closure, *ssa.Function, *ssa.Builtin
//	*MapIter, *StrIter  range iterators
type Value interface{}

type Struct []Value
type Array []Value
type Tuple []Value

// Slice is a non-byte slice. A is the window [0:len) of the backing store
// with cap(A) the Go capacity, exactly like a host slice.
type Slice struct {
	A   []Value
	Nil bool
}

type Iface struct {
	T types.Type // dynamic type; nil for the nil interface
	V Value
}

type Closure struct {
	Fn  *ssa.Function
	Env []Value
}

type mapEntry struct {
	K, V Value
}

type Map struct {
	KeyT    types.Type
	Entries []*mapEntry
}

type Chan struct {
	ID     int
	Cap    int
	Buf    []Value
	Closed bool
	ElemT  types.Type
	// unbuffered rendezvous: a parked sender's value
	sendq       []*chanSend
	recvWaiting int
	selWaiters  []*selWaiter // selects parked on this channel
	// happens-before clocks (race detection): one per buffered element, the close,
	// and the receives (the k-th receive happens before the (k+cap)-th send completes)
	vcs     []VC
	closeVC VC
	recvVCs []VC
	nsent   int
}

// selWaiter is a select statement parked on several channels. Like the Go
// runtime, a parked select is woken by - and commits to - the first of its
// cases that becomes ready, not to whatever is ready when the goroutine next runs.
type selWaiter struct {
	ready     func() []int
	committed []int
}

type chanSend struct {
	v     Value
	taken bool
	th    *Thread
	vc    VC // sender's clock at the send
	rvc   VC // receiver's clock at the receive (unbuffered: the receive happens before the send completes)
}

// Seq is an immutable byte sequence (string or []byte).
type Seq struct {
	Len  *smt.Term                   // BV64
	At   func(i *smt.Term) *smt.Term // BV64 -> BV8
	Max  int                         // concrete upper bound on Len, -1 if unknown
	Conc []byte                      // non-nil (possibly empty) iff fully concrete
	Nil  bool                        // nil slice
	isC  bool
}

func (s *Seq) IsConcrete() bool { return s.isC }

func (m *Machine) concSeq(b []byte) *Seq {
	c := m.C
	bb := append([]byte(nil), b...)
	return &Seq{Len: c.BV(uint64(len(bb)), 64), Max: len(bb), Conc: bb, isC: true,
		At: func(i *smt.Term) *smt.Term {
			if i.IsConst() {
				if i.Val < uint64(len(bb)) {
					return c.BV(uint64(bb[i.Val]), 8)
				}
				return c.BV(0, 8)
			}
			// ite chain over the (short) literal
			r := c.BV(0, 8)
			for k := len(bb) - 1; k >= 0; k-- {
				r = c.Ite(c.Eq(i, c.BV(uint64(k), 64)), c.BV(uint64(bb[k]), 8), r)
			}
			return r
		}}
}

func (m *Machine) nilSeq() *Seq {
	s := m.concSeq(nil)
	s.Nil = true
	return s
}

func (m *Machine) strVal(s string) *Seq { return m.concSeq([]byte(s)) }

// GoString returns the concrete string of a fully concrete Seq.
func (s *Seq) GoString() (string, bool) {
	if s.isC {
		return string(s.Conc), true
	}
	return "", false
}

type MapIter struct {
	m    *Map
	snap []*mapEntry
	i    int
}

type StrIter struct {
	s *Seq
	i int
}

// ---------------------------------------------------------------------------

func intWidth(b *types.Basic) (w int, signed bool, ok bool) {
	switch b.Kind() {
	case types.Int8:
		return 8, true, true
	case types.Int16:
		return 16, true, true
	case types.Int32, types.UntypedRune:
		return 32, true, true
	case types.Int64, types.Int, types.UntypedInt:
		return 64, true, true
	case types.Uint8:
		return 8, false, true
	case types.Uint16:
		return 16, false, true
	case types.Uint32:
		return 32, false, true
	case types.Uint64, types.Uint, types.Uintptr:
		return 64, false, true
	}
	return 0, false, false
}

func isByteSeqType(t types.Type) bool {
	switch u := t.Underlying().(type) {
	case *types.Basic:
		return u.Info()&types.IsString != 0
	case *types.Slice:
		if b, ok := u.Elem().Underlying().(*types.Basic); ok {
			return b.Kind() == types.Uint8
		}
	}
	return false
}

func isString(t types.Type) bool {
	if b, ok := t.Underlying().(*types.Basic); ok {
		return b.Info()&types.IsString != 0
	}
	return false
}

func isSigned(t types.Type) bool {
	if b, ok := t.Underlying().(*types.Basic); ok {
		_, s, _ := intWidth(b)
		return s
	}
	return false
}

func (m *Machine) zero(t types.Type) Value {
	c := m.C
	switch u := t.Underlying().(type) {
	case *types.Basic:
		if u.Kind() == types.Bool || u.Kind() == types.UntypedBool {
			return c.False()
		}
		if w, _, ok := intWidth(u); ok {
			return c.BV(0, w)
		}
		if u.Info()&types.IsString != 0 {
			return m.strVal("")
		}
		if u.Info()&types.IsFloat != 0 {
			return float64(0)
		}
		if u.Kind() == types.UnsafePointer {
			return (*Value)(nil)
		}
		if u.Kind() == types.UntypedNil {
			return nil
		}
		panic(m.unsupported("zero value of basic type " + u.String()))
	case *types.Pointer:
		return (*Value)(nil)
	case *types.Slice:
		if isByteSeqType(u) {
			return m.nilSeq()
		}
		return Slice{Nil: true}
	case *types.Map:
		return (*Map)(nil)
	case *types.Chan:
		return (*Chan)(nil)
	case *types.Signature:
		return (*Closure)(nil)
	case *types.Interface:
		return Iface{}
	case *types.Struct:
		s := make(Struct, u.NumFields())
		for i := range s {
			s[i] = m.zero(u.Field(i).Type())
		}
		return s
	case *types.Array:
		a := make(Array, u.Len())
		for i := range a {
			a[i] = m.zero(u.Elem())
		}
		return a
	case *types.Tuple:
		tu := make(Tuple, u.Len())
		for i := range tu {
			tu[i] = m.zero(u.At(i).Type())
		}
		return tu
	}
	panic(m.unsupported("zero value of type " + t.String()))
}

// copyVal implements by-value semantics for aggregates.
func copyVal(v Value) Value {
	switch v := v.(type) {
	case Struct:
		n := make(Struct, len(v))
		for i := range v {
			n[i] = copyVal(v[i])
		}
		return n
	case Array:
		n := make(Array, len(v))
		for i := range v {
			n[i] = copyVal(v[i])
		}
		return n
	case Tuple:
		n := make(Tuple, len(v))
		for i := range v {
			n[i] = copyVal(v[i])
		}
		return n
	}
	return v
}

func (m *Machine) load(addr *Value, pos fmt.Stringer) Value {
	return copyVal(*addr)
}

// store writes v into *addr element-wise so that interior pointers stay valid.
func store(addr *Value, v Value) {
	switch cur := (*addr).(type) {
	case Struct:
		if nv, ok := v.(Struct); ok && len(nv) == len(cur) {
			for i := range cur {
				store(&cur[i], nv[i])
			}
			return
		}
	case Array:
		if nv, ok := v.(Array); ok && len(nv) == len(cur) {
			for i := range cur {
				store(&cur[i], nv[i])
			}
			return
		}
	}
	*addr = copyVal(v)
}

func isNilValue(v Value) bool {
	switch v := v.(type) {
	case nil:
		return true
	case *Value:
		return v == nil
	case *Map:
		return v == nil
	case *Chan:
		return v == nil
	case *Closure:
		return v == nil
	case *ssa.Function:
		return v == nil
	case Iface:
		return v.T == nil
	case Slice:
		return v.Nil
	case *Seq:
		return v.Nil
	}
	return false
}

// describe renders a value for evidence samples and debugging.
func describe(v Value) string {
	switch v := v.(type) {
	case nil:
		return "nil"
	case *smt.Term:
		return v.String()
	case *Seq:
		if s, ok := v.GoString(); ok {
			return fmt.Sprintf("%q", s)
		}
		return "seq(len=" + v.Len.String() + ")"
	case *Value:
		if v == nil {
			return "nil"
		}
		return fmt.Sprintf("&%p", v)
	case Struct:
		var sb strings.Builder
		sb.WriteString("{")
		for i, f := range v {
			if i > 0 {
				sb.WriteString(", ")
			}
			if i > 6 {
				sb.WriteString("…")
				break
			}
			sb.WriteString(describe(f))
		}
		sb.WriteString("}")
		return sb.String()
	case Iface:
		if v.T == nil {
			return "nil"
		}
		return "(" + v.T.String() + ")" + describe(v.V)
	case Slice:
		return fmt.Sprintf("slice(len=%d)", len(v.A))
	case *Closure:
		if v == nil {
			return "nil"
		}
		return "closure " + v.Fn.String()
	}
	return fmt.Sprintf("%T", v)
}
