package sx

import (
	"fmt"
	"go/constant"
	"go/token"
	"go/types"
	"runtime/debug"
	"strings"

	"gosmt/smt"

	"golang.org/x/tools/go/ssa"
)

func constantString(c *ssa.Const) string { return constant.StringVal(c.Value) }

func debugStack() string { return string(debug.Stack()) }

type deferred struct {
	fn   Value
	args []Value
	pos  token.Pos
}

type frame struct {
	m                *Machine
	th               *Thread
	caller           *frame
	fn               *ssa.Function
	block, prevBlock *ssa.BasicBlock
	env              map[ssa.Value]Value
	locals           []Value
	defers           []*deferred
	result           Value
	panicking        bool
	panicVal         interface{}
	curInstr         ssa.Instruction
	skipPhis         bool
}

func (fr *frame) get(key ssa.Value) Value {
	switch key := key.(type) {
	case nil:
		return nil
	case *ssa.Function:
		return key
	case *ssa.Builtin:
		return key
	case *ssa.Const:
		return fr.m.constValue(key)
	case *ssa.Global:
		return fr.m.globalAddr(key)
	}
	if r, ok := fr.env[key]; ok {
		return r
	}
	panic(fmt.Sprintf("get: no value for %T: %v in %s", key, key.Name(), fr.fn))
}

func (m *Machine) constValue(c *ssa.Const) Value {
	t := c.Type()
	if c.Value == nil {
		// zero / nil of the type
		if _, ok := t.Underlying().(*types.Basic); ok && t.Underlying().(*types.Basic).Kind() == types.UntypedNil {
			return nil
		}
		return m.zero(t)
	}
	if b, ok := t.Underlying().(*types.Basic); ok {
		switch {
		case b.Info()&types.IsBoolean != 0:
			return m.C.Bool(c.Value.String() == "true")
		case b.Info()&types.IsInteger != 0:
			w, signed, _ := intWidth(b)
			if signed {
				return m.C.BV(uint64(c.Int64()), w)
			}
			return m.C.BV(c.Uint64(), w)
		case b.Info()&types.IsString != 0:
			return m.strVal(constantString(c))
		case b.Info()&types.IsFloat != 0:
			return c.Float64()
		}
	}
	panic(m.unsupported("constant of type " + t.String()))
}

// globalAddr returns the address of a package-level variable, running the
// package initialiser lazily the first time one of its globals is touched.
func (m *Machine) globalAddr(g *ssa.Global) *Value {
	if p, ok := m.globals[g]; ok {
		return p
	}
	m.ensureInit(g.Pkg)
	if p, ok := m.globals[g]; ok {
		return p
	}
	p := new(Value)
	*p = m.zero(g.Type().(*types.Pointer).Elem())
	m.globals[g] = p
	return p
}

func (m *Machine) allocGlobals(pkg *ssa.Package) {
	for _, mem := range pkg.Members {
		if g, ok := mem.(*ssa.Global); ok {
			if _, ok := m.globals[g]; !ok {
				p := new(Value)
				*p = m.zero(g.Type().(*types.Pointer).Elem())
				m.globals[g] = p
			}
		}
	}
}

var initAllow = map[string]bool{
	"errors": true, "io": true, "context": true, "strconv": true, "container/list": true,
	"strings": true, "unicode/utf8": true, "math": true, "math/bits": true, "sync": true, "sync/atomic": true,
	"google.golang.org/grpc/codes":           true,
	"google.golang.org/grpc/status":          true,
	"google.golang.org/grpc/internal/status": true,
	"google.golang.org/grpc/metadata":        true,
	"github.com/jhump/grpctunnel":            true,
	"github.com/fullstorydev/grpchan":        true,
	"internal/stringslite":                   true,
	"internal/bytealg":                       true,
	"internal/oserror":                       true,
}

func (m *Machine) ensureInit(pkg *ssa.Package) {
	if pkg == nil || m.inited[pkg] {
		return
	}
	m.inited[pkg] = true
	m.allocGlobals(pkg)
	if !initAllow[pkg.Pkg.Path()] {
		return
	}
	initFn := pkg.Func("init")
	if initFn == nil || initFn.Blocks == nil {
		return
	}
	// mark the guard so that the body runs exactly once, and run it with
	// cross-package init calls suppressed (they are lazy, too).
	m.initing[pkg] = true
	m.call(nil, token.NoPos, initFn, nil)
	delete(m.initing, pkg)
}

// ---------------------------------------------------------------------------
// calls

func (m *Machine) prepareCall(fr *frame, call *ssa.CallCommon) (fn Value, args []Value) {
	v := fr.get(call.Value)
	if call.Method == nil {
		fn = v
	} else {
		recv, ok := v.(Iface)
		if !ok {
			panic(fmt.Sprintf("invoke on non-interface %T", v))
		}
		if recv.T == nil {
			panic(targetPanic{msg: "invalid memory address or nil pointer dereference (method " + call.Method.Name() + " invoked on nil interface)", pos: m.posString(call.Pos())})
		}
		f := m.prog.LookupMethod(recv.T, call.Method.Pkg(), call.Method.Name())
		if f == nil {
			panic(fmt.Sprintf("method set of %v lacks %s", recv.T, call.Method))
		}
		fn = f
		args = append(args, recv.V)
	}
	for _, a := range call.Args {
		args = append(args, fr.get(a))
	}
	return
}

func (m *Machine) call(caller *frame, pos token.Pos, fn Value, args []Value) Value {
	switch fn := fn.(type) {
	case *ssa.Function:
		if fn == nil {
			panic(targetPanic{msg: "call of nil function", pos: m.posString(pos)})
		}
		return m.callSSA(caller, pos, fn, args, nil)
	case *Closure:
		if fn == nil {
			panic(targetPanic{msg: "invalid memory address or nil pointer dereference (call of nil func value)", pos: m.posString(pos)})
		}
		return m.callSSA(caller, pos, fn.Fn, args, fn.Env)
	case *ssa.Builtin:
		return m.callBuiltin(caller, pos, fn, args)
	case *hostFunc:
		return fn.f(m, caller, args)
	}
	panic(fmt.Sprintf("cannot call %T", fn))
}

// hostFunc is a function value implemented by the engine (e.g. the cancel
// function of a modelled context).
type hostFunc struct {
	name string
	f    func(m *Machine, caller *frame, args []Value) Value
}

func normName(s string) string {
	// strip type arguments so that instantiations share one intrinsic
	var sb strings.Builder
	d := 0
	for _, ch := range s {
		switch ch {
		case '[':
			d++
		case ']':
			d--
		default:
			if d == 0 {
				sb.WriteRune(ch)
			}
		}
	}
	return sb.String()
}

func (m *Machine) callSSA(caller *frame, pos token.Pos, fn *ssa.Function, args []Value, env []Value) Value {
	name := fn.String()
	if fn.Parent() == nil {
		if in, ok := intrinsics[name]; ok {
			return in(m, caller, pos, fn, args)
		}
		if strings.ContainsRune(name, '[') {
			if in, ok := intrinsics[normName(name)]; ok {
				return in(m, caller, pos, fn, args)
			}
		}
		if fn.Pkg != nil && fn.Name() == "init" && fn.Signature.Recv() == nil && len(args) == 0 && caller != nil {
			// cross-package initialisation is lazy
			if caller.fn.Name() == "init" && caller.fn.Pkg != fn.Pkg {
				return nil
			}
		}
		if fn.Blocks == nil {
			panic(m.unsupported("function without body and without model: " + name))
		}
	}
	if fn.Blocks == nil {
		panic(m.unsupported("function without body: " + name))
	}
	th := m.cur
	if th.depth > 400 {
		panic(m.unsupported("call depth exceeded in " + name))
	}
	if m.freshTerritory() {
		if fn.Pkg != nil && fn.Pkg == m.ex.Pkg || (fn.Origin() != nil && fn.Origin().Pkg == m.ex.Pkg) || (fn.Parent() != nil && fn.Parent().Pkg == m.ex.Pkg) {
			m.ex.Res.Functions[name] = true
		}
	}
	fr := &frame{m: m, th: th, caller: caller, fn: fn}
	fr.env = make(map[ssa.Value]Value, 16)
	fr.block = fn.Blocks[0]
	fr.locals = make([]Value, len(fn.Locals))
	for i, l := range fn.Locals {
		fr.locals[i] = m.zero(l.Type().(*types.Pointer).Elem())
		fr.env[l] = &fr.locals[i]
	}
	for i, p := range fn.Params {
		fr.env[p] = args[i]
	}
	for i, fv := range fn.FreeVars {
		fr.env[fv] = env[i]
	}
	th.depth++
	saveTop := th.top
	th.top = fr
	defer func() {
		th.depth--
		th.top = saveTop
	}()
	for fr.block != nil {
		m.runFrame(fr)
	}
	return fr.result
}

// runFrame executes until return, panic or recovered panic (see x/tools interp).
func (m *Machine) runFrame(fr *frame) {
	defer func() {
		if fr.block == nil {
			return
		}
		r := recover()
		tp, ok := r.(targetPanic)
		if !ok {
			panic(r) // engine control flow: never runs target defers
		}
		fr.panicking = true
		fr.panicVal = tp
		fr.runDefers()
		fr.block = fr.fn.Recover
	}()
	for {
		if fr.skipPhis {
			fr.skipPhis = false
		} else {
			fr.executePhis()
		}
		for _, instr := range fr.block.Instrs {
			if _, ok := instr.(*ssa.Phi); ok {
				continue
			}
			fr.curInstr = instr
			m.steps++
			if m.ex.Lim.MaxSteps > 0 && m.steps > m.ex.Lim.MaxSteps {
				m.ex.inconclusive(fmt.Sprintf("step budget %d exceeded on a path (unwinding assertion failed) at %s", m.ex.Lim.MaxSteps, m.framePos(fr)))
				panic(pathEnd{"step-budget"})
			}
			switch m.visitInstr(fr, instr) {
			case kReturn:
				return
			case kJump:
				goto nextBlock
			}
		}
	nextBlock:
	}
}

func (fr *frame) executePhis() {
	var temps []Value
	var phis []*ssa.Phi
	for _, instr := range fr.block.Instrs {
		phi, ok := instr.(*ssa.Phi)
		if !ok {
			break
		}
		if fr.prevBlock == nil {
			panic("phi in entry block")
		}
		idx := -1
		for i, p := range fr.block.Preds {
			if p == fr.prevBlock {
				idx = i
				break
			}
		}
		temps = append(temps, fr.get(phi.Edges[idx]))
		phis = append(phis, phi)
	}
	for i, phi := range phis {
		fr.env[phi] = temps[i]
	}
}

func (fr *frame) runDefers() {
	for len(fr.defers) > 0 {
		d := fr.defers[len(fr.defers)-1]
		fr.defers = fr.defers[:len(fr.defers)-1]
		fr.runDefer(d)
	}
	if fr.panicking {
		panic(fr.panicVal)
	}
}

func (fr *frame) runDefer(d *deferred) {
	var ok bool
	defer func() {
		if !ok {
			r := recover()
			if tp, isT := r.(targetPanic); isT {
				fr.panicking = true
				fr.panicVal = tp
				return
			}
			panic(r)
		}
	}()
	fr.m.call(fr, d.pos, d.fn, d.args)
	ok = true
}

type continuation int

const (
	kNext continuation = iota
	kReturn
	kJump
)

func (m *Machine) visitInstr(fr *frame, instr ssa.Instruction) continuation {
	switch instr := instr.(type) {
	case *ssa.DebugRef:

	case *ssa.UnOp:
		fr.env[instr] = m.unop(fr, instr, fr.get(instr.X))

	case *ssa.BinOp:
		fr.env[instr] = m.binop(instr.Op, instr.X.Type(), fr.get(instr.X), fr.get(instr.Y), instr.Pos())

	case *ssa.Call:
		fn, args := m.prepareCall(fr, &instr.Call)
		fr.env[instr] = m.call(fr, instr.Pos(), fn, args)

	case *ssa.ChangeInterface:
		fr.env[instr] = fr.get(instr.X)

	case *ssa.ChangeType:
		fr.env[instr] = fr.get(instr.X)

	case *ssa.Convert:
		fr.env[instr] = m.conv(instr.Type(), instr.X.Type(), fr.get(instr.X))

	case *ssa.MakeInterface:
		fr.env[instr] = Iface{T: instr.X.Type(), V: fr.get(instr.X)}

	case *ssa.Extract:
		fr.env[instr] = fr.get(instr.Tuple).(Tuple)[instr.Index]

	case *ssa.Slice:
		fr.env[instr] = m.slice(instr, fr.get(instr.X), fr.get(instr.Low), fr.get(instr.High), fr.get(instr.Max))

	case *ssa.Return:
		switch len(instr.Results) {
		case 0:
		case 1:
			fr.result = fr.get(instr.Results[0])
		default:
			res := make(Tuple, len(instr.Results))
			for i, r := range instr.Results {
				res[i] = fr.get(r)
			}
			fr.result = res
		}
		fr.block = nil
		return kReturn

	case *ssa.RunDefers:
		fr.runDefers()

	case *ssa.Panic:
		v := fr.get(instr.X)
		panic(targetPanic{v: v, msg: m.panicString(v), pos: m.posString(instr.Pos())})

	case *ssa.Send:
		m.chanSend(fr, fr.get(instr.Chan).(*Chan), fr.get(instr.X), instr.Pos())

	case *ssa.Store:
		addr := fr.get(instr.Addr).(*Value)
		if addr == nil {
			panic(targetPanic{msg: "invalid memory address or nil pointer dereference (store)", pos: m.posString(instr.Pos())})
		}
		if m.roPtrs[addr] {
			panic(m.unsupported("store through a pointer into a symbolic byte sequence"))
		}
		if m.race.on {
			m.raceStore(fr, instr.Addr, addr, accessPos(instr.Pos(), instr.Addr))
		}
		store(addr, fr.get(instr.Val))

	case *ssa.If:
		cond := fr.get(instr.Cond).(*smt.Term)
		if !cond.IsConst() {
			if m.tryIfConvert(fr, instr, cond) {
				return kJump
			}
		}
		succ := 1
		if m.Branch(cond) {
			succ = 0
		}
		fr.prevBlock, fr.block = fr.block, fr.block.Succs[succ]
		return kJump

	case *ssa.Jump:
		fr.prevBlock, fr.block = fr.block, fr.block.Succs[0]
		return kJump

	case *ssa.Defer:
		fn, args := m.prepareCall(fr, &instr.Call)
		fr.defers = append(fr.defers, &deferred{fn: fn, args: args, pos: instr.Pos()})

	case *ssa.Go:
		fn, args := m.prepareCall(fr, &instr.Call)
		m.spawn(fr, instr, fn, args)

	case *ssa.MakeChan:
		sz := fr.get(instr.Size).(*smt.Term)
		if !sz.IsConst() {
			panic(m.unsupported("make(chan) with symbolic size"))
		}
		fr.env[instr] = m.newChan(int(sz.Val), instr.Type().Underlying().(*types.Chan).Elem())

	case *ssa.Alloc:
		var addr *Value
		if instr.Heap {
			addr = new(Value)
			fr.env[instr] = addr
		} else {
			addr = fr.env[instr].(*Value)
		}
		*addr = m.zero(instr.Type().(*types.Pointer).Elem())

	case *ssa.MakeSlice:
		fr.env[instr] = m.makeSlice(instr, fr.get(instr.Len), fr.get(instr.Cap))

	case *ssa.MakeMap:
		fr.env[instr] = &Map{KeyT: instr.Type().Underlying().(*types.Map).Key()}

	case *ssa.Range:
		if m.race.on {
			if mp, ok := fr.get(instr.X).(*Map); ok {
				m.raceMapRead(fr, mp, instr.Pos())
			}
		}
		fr.env[instr] = m.rangeIter(fr.get(instr.X), instr.X.Type())

	case *ssa.Next:
		fr.env[instr] = m.next(fr.get(instr.Iter), instr)

	case *ssa.FieldAddr:
		p := fr.get(instr.X).(*Value)
		if p == nil {
			panic(targetPanic{msg: "invalid memory address or nil pointer dereference (field " + fieldName(instr) + ")", pos: m.posString(instr.Pos())})
		}
		fr.env[instr] = &(*p).(Struct)[instr.Field]

	case *ssa.Field:
		fr.env[instr] = copyVal(fr.get(instr.X).(Struct)[instr.Field])

	case *ssa.IndexAddr:
		fr.env[instr] = m.indexAddr(instr, fr.get(instr.X), fr.get(instr.Index))

	case *ssa.Index:
		fr.env[instr] = m.index(instr, fr.get(instr.X), fr.get(instr.Index))

	case *ssa.Lookup:
		if m.race.on {
			if mp, ok := fr.get(instr.X).(*Map); ok {
				m.raceMapRead(fr, mp, instr.Pos())
			}
		}
		fr.env[instr] = m.lookup(instr, fr.get(instr.X), fr.get(instr.Index))

	case *ssa.MapUpdate:
		mp := fr.get(instr.Map).(*Map)
		if mp == nil {
			panic(targetPanic{msg: "assignment to entry in nil map", pos: m.posString(instr.Pos())})
		}
		if m.race.on {
			m.raceMapWrite(fr, mp, instr.Pos())
		}
		m.mapUpdate(mp, fr.get(instr.Key), fr.get(instr.Value))

	case *ssa.TypeAssert:
		fr.env[instr] = m.typeAssert(instr, fr.get(instr.X).(Iface))

	case *ssa.MakeClosure:
		var b []Value
		for _, x := range instr.Bindings {
			b = append(b, fr.get(x))
		}
		fr.env[instr] = &Closure{Fn: instr.Fn.(*ssa.Function), Env: b}

	case *ssa.Select:
		fr.env[instr] = m.selectInstr(fr, instr)

	case *ssa.SliceToArrayPointer:
		panic(m.unsupported("SliceToArrayPointer"))

	default:
		panic(m.unsupported(fmt.Sprintf("instruction %T", instr)))
	}
	return kNext
}

func fieldName(instr *ssa.FieldAddr) string {
	if pt, ok := instr.X.Type().Underlying().(*types.Pointer); ok {
		if st, ok := pt.Elem().Underlying().(*types.Struct); ok {
			return st.Field(instr.Field).Name()
		}
	}
	return "?"
}

// tryIfConvert turns a side-effect free diamond into ite-phis instead of forking.
func (m *Machine) tryIfConvert(fr *frame, instr *ssa.If, cond *smt.Term) bool {
	b := fr.block
	t, f := b.Succs[0], b.Succs[1]
	emptyJump := func(x *ssa.BasicBlock) bool {
		return len(x.Instrs) == 1 && len(x.Preds) == 1 && len(x.Succs) == 1
	}
	var join *ssa.BasicBlock
	var predT, predF *ssa.BasicBlock // predecessors of join standing for the true / false side
	switch {
	case emptyJump(t) && t.Succs[0] == f:
		join, predT, predF = f, t, b
	case emptyJump(f) && f.Succs[0] == t:
		join, predT, predF = t, b, f
	case emptyJump(t) && emptyJump(f) && t.Succs[0] == f.Succs[0]:
		join, predT, predF = t.Succs[0], t, f
	default:
		return false
	}
	it, iff := -1, -1
	for i, p := range join.Preds {
		if p == predT {
			it = i
		}
		if p == predF {
			iff = i
		}
	}
	if it < 0 || iff < 0 {
		return false
	}
	var phis []*ssa.Phi
	var vals []Value
	for _, in := range join.Instrs {
		phi, ok := in.(*ssa.Phi)
		if !ok {
			break
		}
		a, okA := fr.get(phi.Edges[it]).(*smt.Term)
		c, okC := fr.get(phi.Edges[iff]).(*smt.Term)
		if !okA || !okC {
			return false
		}
		phis = append(phis, phi)
		vals = append(vals, m.C.Ite(cond, a, c))
	}
	for i, phi := range phis {
		fr.env[phi] = vals[i]
	}
	fr.prevBlock = predT
	fr.block = join
	fr.skipPhis = true
	return true
}

// ---------------------------------------------------------------------------

func (m *Machine) spawn(fr *frame, instr *ssa.Go, fn Value, args []Value) {
	name := "go@" + m.posString(instr.Pos())
	if m.inlineGo {
		m.call(fr, instr.Pos(), fn, args)
		return
	}
	t := m.newThread(name, fn, args)
	t.lib = true
	m.spawnLog = append(m.spawnLog, t)
	if m.nonblock > 0 {
		m.events = append(m.events, "GO:"+name)
	}
}

func (m *Machine) panicString(v Value) string {
	switch v := v.(type) {
	case Iface:
		if s, ok := v.V.(*Seq); ok {
			if g, ok := s.GoString(); ok {
				return g
			}
		}
		if v.T != nil {
			return "value of type " + v.T.String()
		}
	}
	return describe(v)
}
