package sx

import (
	"fmt"
	"go/token"
	"go/types"
	"os"
	"sort"
	"strings"
	"time"

	"gosmt/smt"

	"golang.org/x/tools/go/ssa"
)

// ---------------------------------------------------------------------------
// exploration bookkeeping

type evKind uint8

const (
	evBranch evKind = iota // two-way branch on a symbolic condition
	evChoose               // n-way pure nondeterminism (scheduler, select, harness choice)
	evAssume               // PC-adding assumption (no alternatives)
	evAssert               // outcome of an obligation query (val 0 = held, 1 = can fail; no alternatives)
	evValue                // a model value picked by the solver (u), recorded so that replays use the same one
)

type event struct {
	kind   evKind
	val    int  // evBranch: 0 = true, 1 = false; evChoose: index
	nalt   int  // number of alternatives (1 = forced)
	pcAdds bool // this event pushed a solver level
	u      uint64
	stop   bool // remaining alternatives are not explored here (below the subtree root, or donated to another worker)
}

type Obligation struct {
	Seconds    float64
	ID         string
	Reached    int // paths on which it was evaluated
	Concrete   int // evaluated to a concrete true
	Discharged int // unsat answers
	Violated   int
	Unknown    int
	Sample     map[string]interface{} // first violation (inputs) or first reach
	Pos        string
}

type Violation struct {
	Obligation string
	Pos        string
	Msg        string
	Inputs     []NondetRec
	Choices    []int
	Schedule   []int
	Region     string
}

type NondetRec struct {
	Tag   string `json:"tag"`
	Kind  string `json:"kind"`
	Value uint64 `json:"value"`
	Bytes []byte `json:"bytes,omitempty"`
	Len   int    `json:"len,omitempty"`
}

type ObsRec struct {
	Tag   string `json:"tag"`
	Value uint64 `json:"value"`
}

// SchedBlocked marks a schedule entry whose step ended with the thread blocked in a primitive.
const SchedBlocked = 1 << 16

type ConcRec struct {
	Inputs   []NondetRec
	Observed []ObsRec
	Schedule []int
}

type Limits struct {
	MaxPaths     int
	MaxSteps     int // per path
	MaxSeconds   float64
	QueryMS      int
	MaxViolPerOb int
}

type Result struct {
	Harness      string
	Paths        int
	PathsEnded   map[string]int // reason -> count
	Steps        int64
	Obligations  map[string]*Obligation
	Covers       map[string]int
	CoverDecl    map[string]bool
	Violations   []Violation
	Inconclusive []string
	Functions    map[string]bool
	Stats        smt.Stats
	Seconds      float64
	Exhausted    bool // the path tree was explored completely
	Samples      []map[string]interface{}
	Terms        int
	Known        []string
	Concordance  []ConcRec
	cut          bool
}

type Explorer struct {
	Prog       *ssa.Program
	Pkg        *ssa.Package
	Fn         *ssa.Function
	C          *smt.Ctx
	S          *smt.Solver
	Lim        Limits
	Params     map[string]int
	Res        *Result
	Debug      bool
	Mode       string            // "seq" or "conc"
	Known      map[string]string // finding id -> status ("known"/"fixed")
	prefix     []event
	lastTr     []event
	start      time.Time
	lastCharge time.Time
	Verbose    bool

	Race        bool // happens-before data-race detection on every path
	raceFnCache map[*ssa.Function]bool
	raceSeen    map[string]bool

	Preempt    int // CONC: bound on preemptive context switches per path
	Seed       int
	ConcN      int // number of ok-paths whose model is replayed natively (concordance)
	nextSample int
}

func NewExplorer(prog *ssa.Program, pkg *ssa.Package, fn *ssa.Function, lim Limits, params map[string]int, backends ...smt.Backend) (*Explorer, error) {
	c := smt.NewCtx()
	if len(backends) == 0 {
		backends = []smt.Backend{smt.Z3("z3")}
	}
	s, err := smt.NewSolver(c, backends[0], lim.QueryMS, backends[1:]...)
	if err != nil {
		return nil, err
	}
	ex := &Explorer{Prog: prog, Pkg: pkg, Fn: fn, C: c, S: s, Lim: lim, Params: params, Mode: "seq"}
	ex.Res = &Result{Harness: fn.Name(), PathsEnded: map[string]int{}, Obligations: map[string]*Obligation{},
		Covers: map[string]int{}, CoverDecl: map[string]bool{}, Functions: map[string]bool{}}
	return ex, nil
}

func (ex *Explorer) ob(id string) *Obligation {
	o := ex.Res.Obligations[id]
	if o == nil {
		o = &Obligation{ID: id}
		ex.Res.Obligations[id] = o
	}
	return o
}

func (ex *Explorer) inconclusive(msg string) {
	for _, m := range ex.Res.Inconclusive {
		if m == msg {
			return
		}
	}
	if len(ex.Res.Inconclusive) < 50 {
		ex.Res.Inconclusive = append(ex.Res.Inconclusive, msg)
	}
}

// Run explores the whole path tree depth-first by re-execution (single worker).
func (ex *Explorer) Run() *Result {
	ex.start = time.Now()
	ex.runSubtree(nil, nil)
	ex.finish()
	return ex.Res
}

func (ex *Explorer) finish() {
	ex.Res.Seconds = time.Since(ex.start).Seconds()
	ex.Res.Stats = ex.S.Stats
	ex.Res.Terms = ex.C.NumTerms()
	ex.S.Close()
}

// runSubtree explores every path that extends the given prefix. With a pool,
// budgets are shared and pending alternatives are donated to idle workers.
func (ex *Explorer) runSubtree(start []event, pool *Pool) {
	ex.prefix = make([]event, len(start))
	copy(ex.prefix, start)
	for i := range ex.prefix {
		ex.prefix[i].stop = true
	}
	ex.lastTr = nil
	ex.Res.Exhausted = false
	for {
		if pool != nil {
			pool.charge(ex)
			if why := pool.overBudget(); why != "" {
				ex.inconclusive(why)
				return
			}
		} else {
			if ex.Lim.MaxPaths > 0 && ex.Res.Paths >= ex.Lim.MaxPaths {
				ex.inconclusive(fmt.Sprintf("path budget %d exhausted before the path tree was covered", ex.Lim.MaxPaths))
				return
			}
			if ex.Lim.MaxSeconds > 0 && time.Since(ex.start).Seconds() > ex.Lim.MaxSeconds {
				ex.inconclusive(fmt.Sprintf("time budget %.0fs exhausted before the path tree was covered", ex.Lim.MaxSeconds))
				return
			}
		}
		tr := ex.runOnce()
		ex.Res.Paths++
		if pool != nil {
			pool.countPath()
			if pool.hungry() {
				// donate the shallowest pending alternative(s)
				for i := len(start); i < len(tr); i++ {
					if !tr[i].stop && tr[i].val+1 < tr[i].nalt {
						for v := tr[i].val + 1; v < tr[i].nalt; v++ {
							job := make([]event, i+1)
							copy(job, tr[:i+1])
							job[i].val = v
							pool.put(job)
						}
						tr[i].stop = true
						break
					}
				}
			}
		}
		i := len(tr) - 1
		for i >= 0 {
			if !tr[i].stop && tr[i].val+1 < tr[i].nalt {
				break
			}
			i--
		}
		if i < 0 {
			ex.Res.Exhausted = true
			return
		}
		np := make([]event, i+1)
		copy(np, tr[:i+1])
		np[i].val++
		ex.prefix = np
		ex.lastTr = tr
	}
}

// ---------------------------------------------------------------------------
// one run

type pathEnd struct{ reason string }
type abortThread struct{}

type targetPanic struct {
	v   Value
	msg string
	pos string
}

type Thread struct {
	ID      int
	Name    string
	m       *Machine
	resume  chan struct{}
	done    bool
	started bool
	waiting func() bool // non-nil while blocked; true when it may proceed
	waitOn  string
	top     *frame
	spawnFn Value
	spawnAr []Value
	depth   int
	lib     bool // spawned by library code (not by the harness)
	yielded bool

	hook       bool
	vc         VC  // happens-before clock (race detection)
	blockCount int // number of times this thread parked in a blocking operation
	inDrain    bool
}

type Machine struct {
	ex   *Explorer
	C    *smt.Ctx
	S    *smt.Solver
	prog *ssa.Program

	trace   []event
	pos     int
	pcCount int
	synced  int
	pc      []*smt.Term

	steps   int
	globals map[*ssa.Global]*Value
	inited  map[*ssa.Package]bool
	initing map[*ssa.Package]bool

	threads []*Thread
	cur     *Thread
	parked  chan struct{}
	dead    bool
	endWhy  string

	nondet   []nondetRec
	tagCount map[string]int
	fresh    int

	mutexes map[*Value]*mutexState
	conds   map[*Value]*condState
	onces   map[*Value]*onceState
	wgs     map[*Value]*wgState
	roPtrs  map[*Value]bool
	chanSeq int

	atTerminal []Value
	allowBlock bool
	ghost      map[string]Value
	nonblock   int // >0: blocking operations on this stack are recorded
	events     []string
	spawnLog   []*Thread
	inlineGo   bool
	timers     []*timerRec
	warned     map[string]bool

	deadlineCtx  []Iface
	observed     []obsTerm
	violatedHere bool

	onSync       Value // harness environment hook run before every synchronisation operation of the main thread
	inEnv        bool
	race         raceState
	onBlock      Value // harness hook run when no thread can run (terminal state)
	preemptions  int
	schedLog     []int // CONC: id of the thread chosen at every scheduling decision
	terminalRuns int
	progress     bool // some thread other than the hook ran since the hook last ran
}

type obsTerm struct {
	tag string
	t   *smt.Term
}

type nondetRec struct {
	tag  string
	kind string
	term *smt.Term
	seq  *Seq
	cval int
	isC  bool
	max  int
}

func (ex *Explorer) runOnce() []event {
	m := &Machine{ex: ex, C: ex.C, S: ex.S, prog: ex.Prog,
		globals: map[*ssa.Global]*Value{}, inited: map[*ssa.Package]bool{}, initing: map[*ssa.Package]bool{},
		tagCount: map[string]int{}, mutexes: map[*Value]*mutexState{}, conds: map[*Value]*condState{},
		onces: map[*Value]*onceState{}, wgs: map[*Value]*wgState{}, roPtrs: map[*Value]bool{},
		parked: make(chan struct{}), ghost: map[string]Value{}, warned: map[string]bool{}}
	// solver stack sync: keep the levels of the shared prefix
	shared := 0
	if ex.lastTr != nil {
		n := len(ex.prefix) - 1 // events strictly before the diverging one are shared
		for i := 0; i < n && i < len(ex.lastTr); i++ {
			if ex.lastTr[i].pcAdds {
				shared++
			}
		}
	}
	if d := ex.S.Depth(); d > shared {
		ex.S.Pop(d - shared)
	}
	m.synced = shared
	m.raceInit()

	main := m.newThread("main", ex.Fn, nil)
	main.started = true
	m.cur = main
	go main.body()
	m.schedule()
	// kill whatever is still parked
	m.dead = true
	for _, t := range m.threads {
		if t.started && !t.done {
			t.resume <- struct{}{}
			<-m.parked
		}
	}
	m.raceEnd()
	ex.Res.PathsEnded[m.endWhy]++
	ex.Res.Steps += int64(m.steps)
	return m.trace
}

func (m *Machine) newThread(name string, fn Value, args []Value) *Thread {
	t := &Thread{ID: len(m.threads), Name: name, m: m, resume: make(chan struct{}), spawnFn: fn, spawnAr: args}
	m.threads = append(m.threads, t)
	m.hbSpawn(t)
	return t
}

// body runs on its own host goroutine; exactly one thread runs at a time.
func (t *Thread) body() {
	m := t.m
	<-t.resume
	defer func() {
		t.done = true
		if r := recover(); r != nil {
			switch r := r.(type) {
			case abortThread:
			case pathEnd:
				if !m.dead {
					m.dead = true
					m.endWhy = r.reason
				}
			case targetPanic:
				if !m.dead {
					m.reportPanic(r)
					m.dead = true
					m.endWhy = "panic"
				}
			case unsupportedErr:
				if !m.dead {
					m.ex.inconclusive("unsupported: " + r.msg)
					m.dead = true
					m.endWhy = "unsupported"
				}
			default:
				if !m.dead {
					m.ex.inconclusive(fmt.Sprintf("engine error: %v\n%s", r, m.stackString(t)))
					if m.ex.Debug {
						fmt.Fprintf(os.Stderr, "ENGINE PANIC: %v\n%s\n", r, debugStack())
					}
					m.dead = true
					m.endWhy = "engine-error"
				}
			}
		}
		m.parked <- struct{}{}
	}()
	if m.dead {
		panic(abortThread{})
	}
	m.call(nil, token.NoPos, t.spawnFn, t.spawnAr)
	if t.ID == 0 && !m.dead {
		m.sampleConcordance()
		// main finished: let the rest drain so that library goroutines' panics are seen
		m.endWhy = "ok"
	}
}

// schedule is the scheduler loop; it runs on the explorer's goroutine.
func (m *Machine) schedule() {
	for {
		if m.dead {
			return
		}
		t := m.pickThread()
		if t == nil {
			return
		}
		m.cur = t
		if !t.hook {
			m.progress = true
		}
		if !t.started {
			t.started = true
			go t.body()
		}
		nlog := len(m.schedLog)
		t.resume <- struct{}{}
		<-m.parked
		if m.ex.Mode == "conc" && nlog > 0 && nlog == len(m.schedLog) && !t.done && t.waiting != nil {
			// the step ended with the thread blocked inside a primitive (not at a
			// scheduling point): the native schedule player needs to know, because a
			// natively blocked thread resumes by itself when it is released
			m.schedLog[nlog-1] |= SchedBlocked
		}
		if m.threads[0].done {
			if m.endWhy == "" {
				m.endWhy = "ok"
			}
			return
		}
	}
}

func (m *Machine) runnable(t *Thread) bool {
	if t.done {
		return false
	}
	if t.waiting != nil {
		return t.waiting()
	}
	return true
}

// pickThread implements the scheduling policy. SEQ: the current thread keeps
// running while it can; otherwise the lowest-numbered runnable thread runs.
// CONC: every scheduling point is an n-way choice among runnable threads.
func (m *Machine) pickThread() *Thread {
	var run []*Thread
	for _, t := range m.threads {
		if m.runnable(t) {
			run = append(run, t)
		}
	}
	if len(run) == 0 {
		if m.onBlock != nil && !m.threads[0].done && (m.terminalRuns == 0 || m.progress) && m.terminalRuns < 16 {
			// terminal state: let the harness inspect it (it may also release threads)
			m.terminalRuns++
			m.progress = false
			t := m.newThread("at-terminal", m.onBlock, nil)
			if m.race.on {
				for _, o := range m.threads {
					if o != t {
						t.vc = t.vc.join(o.vc)
					}
				}
			}
			t.hook = true
			if m.ex.Mode == "conc" {
				m.schedLog = append(m.schedLog, t.ID) // the native player starts the hook at this step
			}
			return t
		}
		m.terminal()
		return nil
	}
	if m.ex.Mode == "conc" {
		// delay-bounded scheduling: the default scheduler is deterministic (the
		// running thread goes on while it can; when it blocks or ends, the next
		// runnable thread in id order after it takes over). Choosing any other
		// runnable thread at a scheduling point is a deviation; at most
		// ex.Preempt deviations per path. Every deviation is a decision of the
		// symbolic executor, explored by forking.
		var opts []*Thread
		curRunnable := false
		for _, t := range run {
			if t == m.cur {
				curRunnable = true
			}
		}
		if curRunnable {
			opts = append(opts, m.cur)
		}
		curID := -1
		if m.cur != nil {
			curID = m.cur.ID
		}
		for _, t := range run { // round robin: ids after the current one first
			if t != m.cur && t.ID > curID {
				opts = append(opts, t)
			}
		}
		for _, t := range run {
			if t != m.cur && t.ID < curID {
				opts = append(opts, t)
			}
		}
		if m.preemptions >= m.ex.Preempt {
			opts = opts[:1]
		}
		k := 0
		if len(opts) > 1 {
			k = m.Choose(len(opts), "sched")
		}
		if k > 0 {
			m.preemptions++
		}
		if m.cur != nil {
			m.cur.yielded = false
		}
		m.schedLog = append(m.schedLog, opts[k].ID)
		return opts[k]
	}
	if m.cur != nil && m.runnable(m.cur) && !m.cur.yielded {
		return m.cur
	}
	if m.cur != nil && m.cur.yielded {
		m.cur.yielded = false
		for _, t := range run {
			if t.ID > m.cur.ID {
				return t
			}
		}
	}
	// prefer main when it can run, else the oldest runnable
	return run[0]
}

// terminal is reached when no thread can run.
func (m *Machine) terminal() {
	main := m.threads[0]
	if main.done {
		m.endWhy = "ok"
		return
	}
	if m.allowBlock || m.onBlock != nil {
		m.endWhy = "blocked-allowed"
		return
	}
	var sb strings.Builder
	for _, t := range m.threads {
		if !t.done {
			fmt.Fprintf(&sb, "[%s blocked on %s at %s] ", t.Name, t.waitOn, m.threadPos(t))
		}
	}
	var in []NondetRec
	if m.freshTerritory() {
		if r := m.S.Check(); r == smt.Sat {
			in = m.collectInputs()
		}
		m.ex.ob("DEADLOCK").Reached++
		m.violate("DEADLOCK", "", "no thread can run: "+sb.String(), in)
	}
	m.endWhy = "deadlock"
}

// block parks the current thread until ready() holds.
func (m *Machine) block(ready func() bool, what string) {
	t := m.cur
	if m.nonblock > 0 {
		m.events = append(m.events, "BLOCK:"+what)
	}
	if !ready() {
		t.blockCount++
	}
	for !ready() {
		t.waiting = ready
		t.waitOn = what
		m.parked <- struct{}{}
		<-t.resume
		if m.dead {
			panic(abortThread{})
		}
		t.waiting = nil
	}
}

// yield is a scheduling point (CONC mode) or an explicit harness yield.
func (m *Machine) yield() {
	t := m.cur
	t.yielded = true
	m.parked <- struct{}{}
	<-t.resume
	if m.dead {
		panic(abortThread{})
	}
}

// inLibrary: code of the package under test proper (not a harness file).
func (m *Machine) inLibrary(fn *ssa.Function) bool {
	if !m.inTarget(fn) {
		return false
	}
	for f := fn; f != nil; f = f.Parent() {
		if f.Pos() != token.NoPos {
			name := m.prog.Fset.Position(f.Pos()).Filename
			if i := strings.LastIndex(name, "/"); i >= 0 {
				name = name[i+1:]
			}
			return !strings.HasPrefix(name, "zz_verif")
		}
		if o := f.Origin(); o != nil && o.Pos() != token.NoPos {
			name := m.prog.Fset.Position(o.Pos()).Filename
			if i := strings.LastIndex(name, "/"); i >= 0 {
				name = name[i+1:]
			}
			return !strings.HasPrefix(name, "zz_verif")
		}
	}
	return true
}

// syncAfter is a second scheduling point right *after* a releasing / publishing
// operation (unlock, close, channel send, atomic store, signal, broadcast,
// WaitGroup.Done): the thread it releases may run before the releasing thread's
// next plain writes, which is how publication-order bugs (a signal raised before
// the data it announces is stored) become visible under block-atomic scheduling.
func (m *Machine) syncAfter(at *frame) {
	if m.ex.Mode == "conc" && len(m.threads) > 1 && !m.inEnv && at != nil && m.inLibrary(at.fn) {
		live := 0
		for _, t := range m.threads {
			if !t.done {
				live++
			}
		}
		if live > 1 {
			m.yield()
		}
	}
}

func (m *Machine) inTarget(fn *ssa.Function) bool {
	for f := fn; f != nil; f = f.Parent() {
		if f.Pkg != nil {
			return f.Pkg == m.ex.Pkg
		}
		if o := f.Origin(); o != nil && o.Pkg != nil {
			return o.Pkg == m.ex.Pkg
		}
	}
	return false
}

// syncPoint is called before every synchronisation operation; at is the frame
// that performs it (the caller of a sync intrinsic, or the frame executing a
// channel instruction). The environment hook only fires for operations
// performed directly by code of the package under test: inside library code
// (e.g. context) locks may be held that a real second goroutine would wait for.
func (m *Machine) syncPoint(at *frame) {
	if m.onSync != nil && !m.inEnv && m.cur != nil && m.cur.ID == 0 && at != nil && m.inLibrary(at.fn) {
		m.inEnv = true
		m.call(m.cur.top, token.NoPos, m.onSync, nil)
		m.inEnv = false
	}
	if m.ex.Mode == "conc" && len(m.threads) > 1 && !m.inEnv && at != nil && m.inLibrary(at.fn) {
		live := 0
		for _, t := range m.threads {
			if !t.done {
				live++
			}
		}
		if live > 1 {
			m.yield()
		}
	}
}

// ---------------------------------------------------------------------------
// decisions

func (m *Machine) addPC(t *smt.Term) bool {
	m.pc = append(m.pc, t)
	adds := true
	if m.pcCount >= m.synced {
		m.S.Push()
		m.S.Assert(t)
	}
	m.pcCount++
	return adds
}

// Branch decides a symbolic condition, forking when both sides are feasible.
func (m *Machine) Branch(cond *smt.Term) bool {
	if cond.IsConst() {
		return cond.Val == 1
	}
	if m.pos < len(m.ex.prefix) {
		e := m.ex.prefix[m.pos]
		if e.kind != evBranch {
			panic(fmt.Sprintf("engine: replay mismatch at event %d (want branch, have %d)", m.pos, e.kind))
		}
		m.pos++
		if e.nalt > 1 {
			if e.val == 0 {
				m.addPC(cond)
			} else {
				m.addPC(m.C.Not(cond))
			}
			e.pcAdds = true
		}
		m.trace = append(m.trace, e)
		return e.val == 0
	}
	m.pos++
	rt := m.S.Check(cond)
	if rt == smt.Unsat {
		m.trace = append(m.trace, event{kind: evBranch, val: 1, nalt: 1})
		return false
	}
	rf := m.S.Check(m.C.Not(cond))
	if rf == smt.Unsat {
		m.trace = append(m.trace, event{kind: evBranch, val: 0, nalt: 1})
		return true
	}
	if rt == smt.Unknown || rf == smt.Unknown {
		m.ex.inconclusive("solver answered unknown on a branch feasibility query (both sides kept): " + m.S.LastErr)
	}
	m.trace = append(m.trace, event{kind: evBranch, val: 0, nalt: 2, pcAdds: true})
	m.addPC(cond)
	return true
}

// Choose is n-way nondeterminism that needs no solver.
func (m *Machine) Choose(n int, tag string) int {
	if n <= 1 {
		return 0
	}
	if m.pos < len(m.ex.prefix) {
		e := m.ex.prefix[m.pos]
		if e.kind != evChoose || e.nalt != n {
			panic(fmt.Sprintf("engine: replay mismatch at event %d (want choose/%d, have kind %d/%d)", m.pos, n, e.kind, e.nalt))
		}
		m.pos++
		m.trace = append(m.trace, e)
		return e.val
	}
	m.pos++
	m.trace = append(m.trace, event{kind: evChoose, val: 0, nalt: n})
	return 0
}

// modelValue returns a value of t under some model of the path condition.
// The choice is recorded in the trace: replays must see the same value.
func (m *Machine) modelValue(t *smt.Term, what string) uint64 {
	if m.pos < len(m.ex.prefix) {
		e := m.ex.prefix[m.pos]
		if e.kind != evValue {
			panic(fmt.Sprintf("engine: replay mismatch at event %d (want value)", m.pos))
		}
		m.pos++
		m.trace = append(m.trace, e)
		return e.u
	}
	if r := m.S.Check(); r != smt.Sat {
		if r == smt.Unsat {
			panic(pathEnd{"infeasible"})
		}
		panic(m.unsupported(what + " must be concrete (solver could not produce a model)"))
	}
	vals, err := m.S.Values([]*smt.Term{t})
	if err != nil {
		panic(m.unsupported(what + " must be concrete (" + err.Error() + ")"))
	}
	m.pos++
	m.trace = append(m.trace, event{kind: evValue, nalt: 1, u: vals[0]})
	return vals[0]
}

// Assume adds a constraint; an infeasible path ends silently.
func (m *Machine) Assume(cond *smt.Term) {
	if cond.IsTrue() {
		return
	}
	if cond.IsFalse() {
		panic(pathEnd{"infeasible"})
	}
	if m.pos < len(m.ex.prefix) {
		e := m.ex.prefix[m.pos]
		if e.kind != evAssume {
			panic(fmt.Sprintf("engine: replay mismatch at event %d (want assume)", m.pos))
		}
		m.pos++
		m.addPC(cond)
		m.trace = append(m.trace, e)
		return
	}
	m.pos++
	m.trace = append(m.trace, event{kind: evAssume, val: 0, nalt: 1, pcAdds: true})
	m.addPC(cond)
	if r := m.S.Check(); r == smt.Unsat {
		panic(pathEnd{"infeasible"})
	}
}

func (m *Machine) collectInputs() []NondetRec {
	var terms []*smt.Term
	for _, n := range m.nondet {
		if n.isC {
			continue
		}
		if n.seq != nil {
			terms = append(terms, n.seq.Len)
			for i := 0; i < n.max; i++ {
				terms = append(terms, n.seq.At(m.C.BV(uint64(i), 64)))
			}
		} else {
			terms = append(terms, n.term)
		}
	}
	vals, err := m.S.Values(terms)
	if err != nil {
		m.ex.inconclusive("model extraction failed: " + err.Error())
		return nil
	}
	var out []NondetRec
	k := 0
	for _, n := range m.nondet {
		if n.isC {
			out = append(out, NondetRec{Tag: n.tag, Kind: n.kind, Value: uint64(n.cval)})
			continue
		}
		if n.seq != nil {
			l := int(vals[k])
			k++
			bs := make([]byte, n.max)
			for i := 0; i < n.max; i++ {
				bs[i] = byte(vals[k])
				k++
			}
			// the length is exact; only the first n.max bytes of content are read from the model (the rest replay as zero)
			c := l
			if c > n.max {
				c = n.max
			}
			out = append(out, NondetRec{Tag: n.tag, Kind: n.kind, Len: l, Bytes: bs[:c]})
		} else {
			out = append(out, NondetRec{Tag: n.tag, Kind: n.kind, Value: vals[k]})
			k++
		}
	}
	return out
}

func (m *Machine) choices() []int {
	var out []int
	for _, e := range m.trace {
		if e.kind == evChoose {
			out = append(out, e.val)
		}
	}
	return out
}

// sampleConcordance records the model of a clean path for native replay.
func (m *Machine) sampleConcordance() {
	ex := m.ex
	if ex.ConcN == 0 || m.violatedHere || !m.freshTerritory() || len(ex.Res.Concordance) >= ex.ConcN {
		return
	}
	if ex.Res.Paths < ex.nextSample {
		return
	}
	ex.nextSample = ex.Res.Paths*3 + 1 + ex.Seed%3
	if ex.ConcN > 16 {
		ex.nextSample = ex.Res.Paths + 1 + (ex.Res.Paths+ex.Seed)%7 // dense sampling (development)
	}
	if r := m.S.Check(); r != smt.Sat {
		return
	}
	in := m.collectInputs()
	var ts []*smt.Term
	for _, o := range m.observed {
		ts = append(ts, o.t)
	}
	vals, err := m.S.Values(ts)
	if err != nil {
		return
	}
	var obs []ObsRec
	for i, o := range m.observed {
		obs = append(obs, ObsRec{Tag: o.tag, Value: vals[i]})
	}
	ex.Res.Concordance = append(ex.Res.Concordance, ConcRec{Inputs: in, Observed: obs, Schedule: append([]int(nil), m.schedLog...)})
}

func (m *Machine) violate(id, pos, msg string, inputs []NondetRec) {
	m.violatedHere = true
	o := m.ex.ob(id)
	o.Violated++
	if o.Pos == "" {
		o.Pos = pos
	}
	lim := m.ex.Lim.MaxViolPerOb
	if lim == 0 {
		lim = 3
	}
	n := 0
	for _, v := range m.ex.Res.Violations {
		if v.Obligation == id {
			n++
		}
	}
	if n < lim {
		if m.ex.Debug {
			for _, t := range m.threads {
				if !t.done {
					msg += fmt.Sprintf("\n          thread %s: %s", t.Name, m.stackString(t))
				}
			}
		}
		m.ex.Res.Violations = append(m.ex.Res.Violations, Violation{Obligation: id, Pos: pos, Msg: msg, Inputs: inputs, Choices: m.choices(), Schedule: append([]int(nil), m.schedLog...)})
	}
}

// fresh reports whether execution is past the replayed prefix, i.e. in a part
// of the path tree no earlier run has visited.
func (m *Machine) freshTerritory() bool { return m.pos >= len(m.ex.prefix) }

// obligation evaluates PC ∧ ¬cond once per program point of the path tree and
// records the outcome in the trace so that replays do not repeat the query.
// It returns true when the condition can fail.
func (m *Machine) obligation(cond *smt.Term, id, pos, msg string) bool {
	o := m.ex.ob(id)
	fresh := m.freshTerritory()
	if cond.IsTrue() {
		if fresh {
			o.Reached++
			o.Concrete++
			if o.Pos == "" {
				o.Pos = pos
			}
		}
		return false
	}
	if !fresh {
		e := m.ex.prefix[m.pos]
		if e.kind != evAssert {
			panic(fmt.Sprintf("engine: replay mismatch at event %d (want assert %s)", m.pos, id))
		}
		m.pos++
		m.trace = append(m.trace, e)
		return e.val == 1
	}
	o.Reached++
	if o.Pos == "" {
		o.Pos = pos
	}
	var r smt.Result
	tq := time.Now()
	if cond.IsFalse() {
		r = m.S.Check() // need a model of the path condition
	} else {
		r = m.S.Check(m.C.Not(cond))
	}
	o.Seconds += time.Since(tq).Seconds()
	out := 0
	switch r {
	case smt.Unsat:
		o.Discharged++
	case smt.Unknown:
		o.Unknown++
		out = 1
		m.ex.inconclusive("solver answered unknown on obligation " + id + " at " + pos + ": " + m.S.LastErr)
	case smt.Sat:
		out = 1
		in := m.collectInputs()
		m.violate(id, pos, msg, in)
	}
	m.pos++
	m.trace = append(m.trace, event{kind: evAssert, val: out, nalt: 1})
	return out == 1
}

// Assert checks the property; afterwards the condition is assumed.
func (m *Machine) Assert(cond *smt.Term, id, pos string) {
	if m.obligation(cond, id, pos, "assertion can fail") {
		if cond.IsFalse() {
			panic(pathEnd{"assert-failed"})
		}
		m.Assume(cond)
	}
}

func (m *Machine) reportPanic(p targetPanic) {
	if !m.freshTerritory() {
		return
	}
	var in []NondetRec
	if r := m.S.Check(); r == smt.Sat {
		in = m.collectInputs()
	}
	m.ex.ob("PANIC").Reached++
	m.violate("PANIC", p.pos, "panic: "+p.msg+" at "+p.pos, in)
}

// checkPanic is an implicit obligation: ok must hold on every feasible path.
// It does not fork: if the panic is feasible it is reported and the path
// continues under the assumption that it did not happen.
func (m *Machine) checkPanic(ok *smt.Term, what string, pos token.Pos) {
	if ok.IsTrue() {
		return
	}
	p := m.posString(pos)
	if ok.IsFalse() {
		panic(targetPanic{msg: what, pos: p})
	}
	if m.obligation(ok, "PANIC", p, "panic: "+what+" at "+p) {
		m.Assume(ok)
	}
}

// ---------------------------------------------------------------------------

type unsupportedErr struct{ msg string }

func (m *Machine) unsupported(msg string) unsupportedErr {
	return unsupportedErr{msg: msg + " [" + m.stackString(m.cur) + "]"}
}

func (m *Machine) posString(p token.Pos) string {
	if p == token.NoPos {
		return "?"
	}
	ps := m.prog.Fset.Position(p)
	f := ps.Filename
	if i := strings.LastIndex(f, "/"); i >= 0 {
		f = f[i+1:]
	}
	return fmt.Sprintf("%s:%d", f, ps.Line)
}

func (m *Machine) threadPos(t *Thread) string {
	if t == nil || t.top == nil {
		return "?"
	}
	return m.framePos(t.top)
}

func (m *Machine) framePos(fr *frame) string {
	for f := fr; f != nil; f = f.caller {
		if f.curInstr != nil && f.curInstr.Pos() != token.NoPos {
			return f.fn.Name() + "@" + m.posString(f.curInstr.Pos())
		}
	}
	if fr != nil {
		return fr.fn.Name()
	}
	return "?"
}

func (m *Machine) stackString(t *Thread) string {
	if t == nil {
		return ""
	}
	var parts []string
	for f := t.top; f != nil && len(parts) < 8; f = f.caller {
		p := ""
		if f.curInstr != nil {
			p = "@" + m.posString(f.curInstr.Pos())
		}
		parts = append(parts, f.fn.Name()+p)
	}
	return strings.Join(parts, " < ")
}

func (m *Machine) freshName(prefix string) string {
	m.fresh++
	return fmt.Sprintf("%s!%d", prefix, m.fresh)
}

func (m *Machine) tagName(tag string) string {
	n := m.tagCount[tag]
	m.tagCount[tag] = n + 1
	if n == 0 {
		return tag
	}
	return fmt.Sprintf("%s#%d", tag, n)
}

func sortedKeys[V any](mp map[string]V) []string {
	ks := make([]string, 0, len(mp))
	for k := range mp {
		ks = append(ks, k)
	}
	sort.Strings(ks)
	return ks
}

var _ = types.Typ
