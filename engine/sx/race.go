package sx

// Happens-before data-race detection on every explored path.
//
// Every interpreter thread carries a vector clock; the synchronisation
// intrinsics (mutexes, RW mutexes, Once, WaitGroup, Cond via its mutex,
// atomics, channel send/receive/close, select, go) transfer clocks exactly
// along the edges of the Go memory model. Every load and store of a memory
// cell that library code performs (and every map read / write) is checked
// against the cell's last write and its reads since then (FastTrack-style
// shadow state). Two conflicting accesses that are not ordered by
// happens-before are a data race in the sense of the Go race detector -
// whether or not the explored schedule happens to run them back to back.
// The obligation is implicit (like PANIC and DEADLOCK): id "C15.RACE".

import (
	"fmt"
	"go/token"
	"go/types"
	"sort"
	"strings"

	"golang.org/x/tools/go/ssa"
)

type VC []uint32

func (a VC) clone() VC { return append(VC(nil), a...) }

func (a VC) at(i int) uint32 {
	if i < len(a) {
		return a[i]
	}
	return 0
}

// join returns the pointwise maximum (in place when a is long enough).
func (a VC) join(b VC) VC {
	for len(a) < len(b) {
		a = append(a, 0)
	}
	for i, v := range b {
		if v > a[i] {
			a[i] = v
		}
	}
	return a
}

type raceAccess struct {
	tid int
	clk uint32
	pos token.Pos
}

type shadow struct {
	w  raceAccess
	hw bool
	rs []raceAccess // reads since the last write, at most one per thread
}

type raceState struct {
	on     bool
	shadow map[interface{}]*shadow
	sync   map[interface{}]VC
	fnOK   map[*ssa.Function]bool
	seen   map[string]bool
	n      int
}

type rwKey struct {
	p *Value
	r bool
}
type onceKey struct{ p *Value }
type wgKey struct{ p *Value }

func (m *Machine) raceInit() {
	m.race.on = m.ex.Race
	if !m.race.on {
		return
	}
	m.race.shadow = map[interface{}]*shadow{}
	m.race.sync = map[interface{}]VC{}
	m.race.fnOK = m.ex.raceFnCache
	if m.race.fnOK == nil {
		m.race.fnOK = map[*ssa.Function]bool{}
		m.ex.raceFnCache = m.race.fnOK
	}
	m.race.seen = map[string]bool{}
}

func (t *Thread) tick() {
	for len(t.vc) <= t.ID {
		t.vc = append(t.vc, 0)
	}
	t.vc[t.ID]++
}

// hbSpawn: the go statement happens before the start of the new goroutine.
func (m *Machine) hbSpawn(child *Thread) {
	if !m.race.on {
		return
	}
	if m.cur != nil {
		child.vc = m.cur.vc.clone()
		m.cur.tick()
	}
	child.tick()
}

// hbRelease publishes the current thread's clock on key (replacing what was there).
func (m *Machine) hbRelease(key interface{}) {
	if !m.race.on || m.cur == nil {
		return
	}
	m.race.sync[key] = m.cur.vc.clone()
	m.cur.tick()
}

// hbReleaseJoin publishes the current thread's clock on key, keeping earlier releases.
func (m *Machine) hbReleaseJoin(key interface{}) {
	if !m.race.on || m.cur == nil {
		return
	}
	m.race.sync[key] = m.race.sync[key].join(m.cur.vc)
	m.cur.tick()
}

func (m *Machine) hbAcquire(key interface{}) {
	if !m.race.on || m.cur == nil {
		return
	}
	if v := m.race.sync[key]; v != nil {
		m.cur.vc = m.cur.vc.join(v)
	}
}

func (m *Machine) hbAcquireVC(v VC) {
	if !m.race.on || m.cur == nil || v == nil {
		return
	}
	m.cur.vc = m.cur.vc.join(v)
}

// hbNow returns a copy of the current thread's clock and advances it (a release into a message).
func (m *Machine) hbNow() VC {
	if !m.race.on || m.cur == nil {
		return nil
	}
	v := m.cur.vc.clone()
	m.cur.tick()
	return v
}

// hbBarrier: the harness waited for everybody (verifDrain, terminal hooks): all
// that the other threads did so far happens before what the caller does next.
func (m *Machine) hbBarrier() {
	if !m.race.on || m.cur == nil {
		return
	}
	for _, t := range m.threads {
		if t != m.cur {
			m.cur.vc = m.cur.vc.join(t.vc)
		}
	}
}

// raceFn: accesses performed by this function are checked (the package's own code
// and the few value libraries that operate directly on its maps and lists).
func (m *Machine) raceFn(fn *ssa.Function) bool {
	if ok, hit := m.race.fnOK[fn]; hit {
		return ok
	}
	ok := m.inLibrary(fn)
	if !ok {
		for f := fn; f != nil && !ok; f = f.Parent() {
			var pkg *ssa.Package
			if f.Pkg != nil {
				pkg = f.Pkg
			} else if o := f.Origin(); o != nil {
				pkg = o.Pkg
			}
			if pkg != nil {
				switch pkg.Pkg.Path() {
				case "google.golang.org/grpc/metadata", "container/list", "github.com/fullstorydev/grpchan":
					ok = true
				}
				break
			}
		}
	}
	m.race.fnOK[fn] = ok
	return ok
}

func (m *Machine) raceActive(fr *frame) bool {
	return m.race.on && fr != nil && m.cur != nil && !m.inEnv && len(m.initing) == 0 && len(m.threads) > 1 && m.raceFn(fr.fn)
}

func (m *Machine) raceRead(fr *frame, key interface{}, pos token.Pos) {
	t := m.cur
	s := m.race.shadow[key]
	if s == nil {
		s = &shadow{}
		m.race.shadow[key] = s
	}
	m.race.n++
	if s.hw && s.w.tid != t.ID && s.w.clk > t.vc.at(s.w.tid) {
		m.reportRace(s.w, "write", raceAccess{t.ID, 0, pos}, "read")
	}
	c := t.vc.at(t.ID)
	for i := range s.rs {
		if s.rs[i].tid == t.ID {
			s.rs[i].clk, s.rs[i].pos = c, pos
			return
		}
	}
	s.rs = append(s.rs, raceAccess{t.ID, c, pos})
}

func (m *Machine) raceWrite(fr *frame, key interface{}, pos token.Pos) {
	t := m.cur
	s := m.race.shadow[key]
	if s == nil {
		s = &shadow{}
		m.race.shadow[key] = s
	}
	m.race.n++
	if s.hw && s.w.tid != t.ID && s.w.clk > t.vc.at(s.w.tid) {
		m.reportRace(s.w, "write", raceAccess{t.ID, 0, pos}, "write")
	}
	for _, r := range s.rs {
		if r.tid != t.ID && r.clk > t.vc.at(r.tid) {
			m.reportRace(r, "read", raceAccess{t.ID, 0, pos}, "write")
		}
	}
	s.w = raceAccess{t.ID, t.vc.at(t.ID), pos}
	s.hw = true
	s.rs = s.rs[:0]
}

// cells enumerates the leaf cells of the value stored at addr (a struct or array
// value occupies one cell per element, as in real memory).
func raceCells(addr *Value, f func(*Value), depth int) {
	if depth < 3 {
		switch cur := (*addr).(type) {
		case Struct:
			for i := range cur {
				raceCells(&cur[i], f, depth+1)
			}
			return
		case Array:
			for i := range cur {
				raceCells(&cur[i], f, depth+1)
			}
			return
		}
	}
	f(addr)
}

func isLocalAlloc(v ssa.Value) bool {
	a, ok := v.(*ssa.Alloc)
	return ok && !a.Heap
}

func (m *Machine) raceLoad(fr *frame, addrV ssa.Value, addr *Value, pos token.Pos) {
	if !m.raceActive(fr) || isLocalAlloc(addrV) {
		return
	}
	if isSyncType(addrV.Type()) {
		return
	}
	raceCells(addr, func(c *Value) { m.raceRead(fr, c, pos) }, 0)
}

func (m *Machine) raceStore(fr *frame, addrV ssa.Value, addr *Value, pos token.Pos) {
	if !m.raceActive(fr) || isLocalAlloc(addrV) {
		return
	}
	if isSyncType(addrV.Type()) {
		return
	}
	raceCells(addr, func(c *Value) { m.raceWrite(fr, c, pos) }, 0)
}

func (m *Machine) raceMapRead(fr *frame, mp *Map, pos token.Pos) {
	if mp == nil || !m.raceActive(fr) {
		return
	}
	m.raceRead(fr, mp, pos)
}

func (m *Machine) raceMapWrite(fr *frame, mp *Map, pos token.Pos) {
	if mp == nil || !m.raceActive(fr) {
		return
	}
	m.raceWrite(fr, mp, pos)
}

// isSyncType: *sync.Mutex, *sync/atomic.X, ... (whole-value copies of those are
// not data accesses the detector should look at).
func isSyncType(t types.Type) bool {
	p, ok := t.Underlying().(*types.Pointer)
	if !ok {
		return false
	}
	n, ok := p.Elem().(*types.Named)
	if !ok || n.Obj().Pkg() == nil {
		return false
	}
	switch n.Obj().Pkg().Path() {
	case "sync", "sync/atomic":
		return true
	}
	return false
}

func (m *Machine) racePos(p token.Pos) string {
	if p == token.NoPos {
		return "?"
	}
	ps := m.prog.Fset.Position(p)
	name := ps.Filename
	if i := strings.LastIndex(name, "/"); i >= 0 {
		name = name[i+1:]
	}
	return fmt.Sprintf("%s:%d", name, ps.Line)
}

func (m *Machine) reportRace(a raceAccess, akind string, b raceAccess, bkind string) {
	pa, pb := m.racePos(a.pos), m.racePos(b.pos)
	pair := []string{pa + "(" + akind + ")", pb + "(" + bkind + ")"}
	sort.Strings(pair)
	key := pair[0] + "~" + pair[1]
	if m.race.seen[key] {
		return
	}
	m.race.seen[key] = true
	if m.ex.raceSeen == nil {
		m.ex.raceSeen = map[string]bool{}
	}
	if m.ex.raceSeen[key] {
		return
	}
	m.ex.raceSeen[key] = true
	id := "C15.RACE@" + key
	var in []NondetRec
	if m.S.Check() == 1 { // smt.Sat
		in = m.collectInputs()
	}
	m.ex.ob(id).Reached++
	ta, tb := "?", "?"
	if a.tid < len(m.threads) {
		ta = m.threads[a.tid].Name
	}
	if b.tid < len(m.threads) {
		tb = m.threads[b.tid].Name
	}
	m.violate(id, key, fmt.Sprintf("data race: %s at %s by thread %q is not ordered (happens-before) with %s at %s by thread %q", akind, pa, ta, bkind, pb, tb), in)
}

// raceEnd is called once per finished path.
func (m *Machine) raceEnd() {
	if !m.race.on {
		return
	}
	o := m.ex.ob("C15.RACE")
	if m.race.n > 0 {
		o.Reached++
		o.Concrete++
		o.Discharged += 0
	}
}

// hbAtomic: Go's atomics are sequentially consistent; an atomic operation that
// observes the effect of another is synchronised after it. kind 0 = load
// (acquire), 1 = store (release), 2 = read-modify-write (both).
func (m *Machine) hbAtomic(kind int, cell *Value) {
	if !m.race.on {
		return
	}
	if kind != 1 {
		m.hbAcquire(cell)
	}
	if kind != 0 {
		m.hbReleaseJoin(cell)
	}
}

// accessPos: the source position to report for a load / store (implicit
// dereferences carry no position of their own; use the address computation's).
func accessPos(p token.Pos, addr ssa.Value) token.Pos {
	if p != token.NoPos {
		return p
	}
	return addr.Pos()
}
