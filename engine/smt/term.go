// Package smt is a small hash-consed term language (QF_ABV fragment) with
// constant folding and an SMT-LIB2 printer. Widths up to 64 bits.
package smt

import (
	"fmt"
	"math/bits"
	"strings"
)

type Kind uint8

const (
	KBool Kind = iota
	KBV
	KArr // (Array (_ BitVec 64) (_ BitVec 8))
)

type Sort struct {
	K Kind
	W int
}

var BoolSort = Sort{K: KBool}
var ArrSort = Sort{K: KArr}

func BVSort(w int) Sort { return Sort{K: KBV, W: w} }

func (s Sort) String() string {
	switch s.K {
	case KBool:
		return "Bool"
	case KBV:
		return fmt.Sprintf("(_ BitVec %d)", s.W)
	default:
		return "(Array (_ BitVec 64) (_ BitVec 8))"
	}
}

type Op uint8

const (
	OVar Op = iota
	OConst
	ONot
	OAnd
	OOr
	OIte
	OEq
	OAdd
	OSub
	OMul
	OUDiv
	OURem
	OSDiv
	OSRem
	OBAnd
	OBOr
	OBXor
	OShl
	OLShr
	OAShr
	OULT
	OULE
	OSLT
	OSLE
	OExtract
	OZext
	OSext
	OConcat
	OSelect
	OStore
)

var opNames = map[Op]string{
	ONot: "not", OAnd: "and", OOr: "or", OIte: "ite", OEq: "=",
	OAdd: "bvadd", OSub: "bvsub", OMul: "bvmul", OUDiv: "bvudiv", OURem: "bvurem",
	OSDiv: "bvsdiv", OSRem: "bvsrem", OBAnd: "bvand", OBOr: "bvor", OBXor: "bvxor",
	OShl: "bvshl", OLShr: "bvlshr", OAShr: "bvashr",
	OULT: "bvult", OULE: "bvule", OSLT: "bvslt", OSLE: "bvsle",
	OConcat: "concat", OSelect: "select", OStore: "store",
}

type Term struct {
	Op   Op
	Args []*Term
	S    Sort
	Val  uint64 // OConst (BV: value masked to width; Bool: 0/1)
	Name string // OVar
	I, J int    // extract hi/lo, ext amount
	ID   int
	// unsigned value range of a BV term (sound over-approximation computed
	// at construction; word-level facts the bit-blaster would have to rediscover)
	Lo, Hi uint64
}

func (t *Term) IsConst() bool { return t.Op == OConst }
func (t *Term) IsTrue() bool  { return t.Op == OConst && t.S.K == KBool && t.Val == 1 }
func (t *Term) IsFalse() bool { return t.Op == OConst && t.S.K == KBool && t.Val == 0 }

// Ctx hash-conses terms. Not safe for concurrent use.
type Ctx struct {
	tab   map[string]*Term
	terms []*Term
	Vars  []*Term
	varBy map[string]*Term
}

func NewCtx() *Ctx {
	return &Ctx{tab: map[string]*Term{}, varBy: map[string]*Term{}}
}

func (c *Ctx) NumTerms() int { return len(c.terms) }

func mask(w int) uint64 {
	if w >= 64 {
		return ^uint64(0)
	}
	return (uint64(1) << uint(w)) - 1
}

func (c *Ctx) mk(op Op, s Sort, val uint64, name string, i, j int, args ...*Term) *Term {
	var sb strings.Builder
	fmt.Fprintf(&sb, "%d|%d.%d|%d|%s|%d|%d", op, s.K, s.W, val, name, i, j)
	for _, a := range args {
		fmt.Fprintf(&sb, "|%d", a.ID)
	}
	k := sb.String()
	if t, ok := c.tab[k]; ok {
		return t
	}
	t := &Term{Op: op, Args: args, S: s, Val: val, Name: name, I: i, J: j, ID: len(c.terms)}
	if s.K == KBV {
		t.Lo, t.Hi = rangeOf(t)
	}
	c.terms = append(c.terms, t)
	c.tab[k] = t
	return t
}

// rangeOf computes an unsigned interval for a freshly built BV term.
func rangeOf(t *Term) (uint64, uint64) {
	w := t.S.W
	M := mask(w)
	full := func() (uint64, uint64) { return 0, M }
	a := t.Args
	switch t.Op {
	case OConst:
		return t.Val, t.Val
	case OZext:
		return a[0].Lo, a[0].Hi
	case OSext:
		if a[0].Hi <= mask(a[0].S.W-1) {
			return a[0].Lo, a[0].Hi
		}
	case OExtract:
		if t.J == 0 && a[0].Hi <= M {
			return a[0].Lo, a[0].Hi
		}
	case OAdd:
		hi, carry := bits.Add64(a[0].Hi, a[1].Hi, 0)
		if carry == 0 && hi <= M {
			return a[0].Lo + a[1].Lo, hi
		}
	case OSub:
		if a[0].Lo >= a[1].Hi {
			return a[0].Lo - a[1].Hi, a[0].Hi - a[1].Lo
		}
	case OMul:
		h, l := bits.Mul64(a[0].Hi, a[1].Hi)
		if h == 0 && l <= M {
			return a[0].Lo * a[1].Lo, l
		}
	case OUDiv:
		if a[1].Lo > 0 {
			return a[0].Lo / a[1].Hi, a[0].Hi / a[1].Lo
		}
	case OURem:
		if a[1].Lo > 0 {
			hi := a[1].Hi - 1
			if a[0].Hi < hi {
				hi = a[0].Hi
			}
			return 0, hi
		}
	case OBAnd:
		hi := a[0].Hi
		if a[1].Hi < hi {
			hi = a[1].Hi
		}
		return 0, hi
	case OBOr, OBXor:
		hi := a[0].Hi | a[1].Hi
		// smallest all-ones value covering hi
		n := bits.Len64(hi)
		return 0, mask(n) & M
	case OLShr:
		if a[1].IsConst() && a[1].Val < uint64(w) {
			return a[0].Lo >> a[1].Val, a[0].Hi >> a[1].Val
		}
		return 0, a[0].Hi
	case OShl:
		if a[1].IsConst() && a[1].Val < uint64(w) {
			k := a[1].Val
			if bits.Len64(a[0].Hi)+int(k) <= w {
				return a[0].Lo << k, a[0].Hi << k
			}
		}
	case OIte:
		lo, hi := a[1].Lo, a[1].Hi
		if a[2].Lo < lo {
			lo = a[2].Lo
		}
		if a[2].Hi > hi {
			hi = a[2].Hi
		}
		return lo, hi
	}
	return full()
}

// noOverflowAdd reports whether t = x + y provably does not wrap.
func noOverflowAdd(t *Term) bool {
	if t.Op != OAdd {
		return false
	}
	hi, carry := bits.Add64(t.Args[0].Hi, t.Args[1].Hi, 0)
	return carry == 0 && hi <= mask(t.S.W)
}

func (c *Ctx) Var(name string, s Sort) *Term {
	if t, ok := c.varBy[name]; ok {
		if t.S != s {
			panic("smt: variable " + name + " redeclared with a different sort")
		}
		return t
	}
	t := c.mk(OVar, s, 0, name, 0, 0)
	c.varBy[name] = t
	c.Vars = append(c.Vars, t)
	return t
}

func (c *Ctx) BV(v uint64, w int) *Term { return c.mk(OConst, BVSort(w), v&mask(w), "", 0, 0) }
func (c *Ctx) Bool(b bool) *Term {
	if b {
		return c.mk(OConst, BoolSort, 1, "", 0, 0)
	}
	return c.mk(OConst, BoolSort, 0, "", 0, 0)
}
func (c *Ctx) True() *Term  { return c.Bool(true) }
func (c *Ctx) False() *Term { return c.Bool(false) }

func sext64(v uint64, w int) int64 {
	if w >= 64 {
		return int64(v)
	}
	sh := uint(64 - w)
	return int64(v<<sh) >> sh
}

func (c *Ctx) Not(a *Term) *Term {
	if a.IsConst() {
		return c.Bool(a.Val == 0)
	}
	if a.Op == ONot {
		return a.Args[0]
	}
	return c.mk(ONot, BoolSort, 0, "", 0, 0, a)
}

func (c *Ctx) And(as ...*Term) *Term {
	var out []*Term
	seen := map[int]bool{}
	for _, a := range as {
		if a.IsFalse() {
			return a
		}
		if a.IsTrue() || seen[a.ID] {
			continue
		}
		if a.Op == OAnd {
			for _, b := range a.Args {
				if !seen[b.ID] {
					seen[b.ID] = true
					out = append(out, b)
				}
			}
			continue
		}
		seen[a.ID] = true
		out = append(out, a)
	}
	for _, a := range out {
		if a.Op == ONot && seen[a.Args[0].ID] {
			return c.False()
		}
	}
	switch len(out) {
	case 0:
		return c.True()
	case 1:
		return out[0]
	}
	return c.mk(OAnd, BoolSort, 0, "", 0, 0, out...)
}

func (c *Ctx) Or(as ...*Term) *Term {
	var out []*Term
	seen := map[int]bool{}
	for _, a := range as {
		if a.IsTrue() {
			return a
		}
		if a.IsFalse() || seen[a.ID] {
			continue
		}
		if a.Op == OOr {
			for _, b := range a.Args {
				if !seen[b.ID] {
					seen[b.ID] = true
					out = append(out, b)
				}
			}
			continue
		}
		seen[a.ID] = true
		out = append(out, a)
	}
	for _, a := range out {
		if a.Op == ONot && seen[a.Args[0].ID] {
			return c.True()
		}
	}
	switch len(out) {
	case 0:
		return c.False()
	case 1:
		return out[0]
	}
	return c.mk(OOr, BoolSort, 0, "", 0, 0, out...)
}

func (c *Ctx) Implies(a, b *Term) *Term { return c.Or(c.Not(a), b) }

func (c *Ctx) Ite(cond, a, b *Term) *Term {
	if cond.IsConst() {
		if cond.Val == 1 {
			return a
		}
		return b
	}
	if a == b {
		return a
	}
	if a.S != b.S {
		panic(fmt.Sprintf("smt: ite sort mismatch %v vs %v", a.S, b.S))
	}
	if a.S.K == KBool {
		if a.IsTrue() && b.IsFalse() {
			return cond
		}
		if a.IsFalse() && b.IsTrue() {
			return c.Not(cond)
		}
	}
	return c.mk(OIte, a.S, 0, "", 0, 0, cond, a, b)
}

func (c *Ctx) Eq(a, b *Term) *Term {
	if a == b {
		return c.True()
	}
	if a.S != b.S {
		panic(fmt.Sprintf("smt: eq sort mismatch %v vs %v", a.S, b.S))
	}
	if a.IsConst() && b.IsConst() {
		return c.Bool(a.Val == b.Val)
	}
	if a.S.K == KBV && (a.Hi < b.Lo || b.Hi < a.Lo) {
		return c.False()
	}
	if a.S.K == KBool {
		if a.IsConst() {
			a, b = b, a
		}
		if b.IsTrue() {
			return a
		}
		if b.IsFalse() {
			return c.Not(a)
		}
	}
	// ite(c, k1, k2) == k  with constants folds to c / not c / false
	if b.IsConst() && a.Op == OIte && a.Args[1].IsConst() && a.Args[2].IsConst() {
		t1 := a.Args[1].Val == b.Val
		t2 := a.Args[2].Val == b.Val
		switch {
		case t1 && t2:
			return c.True()
		case t1:
			return a.Args[0]
		case t2:
			return c.Not(a.Args[0])
		default:
			return c.False()
		}
	}
	if a.IsConst() && b.Op == OIte {
		return c.Eq(b, a)
	}
	if a.ID > b.ID {
		a, b = b, a
	}
	return c.mk(OEq, BoolSort, 0, "", 0, 0, a, b)
}

func (c *Ctx) checkBV2(a, b *Term, op string) {
	if a.S.K != KBV || a.S != b.S {
		panic(fmt.Sprintf("smt: %s operand sorts %v %v", op, a.S, b.S))
	}
}

func (c *Ctx) Bin(op Op, a, b *Term) *Term {
	c.checkBV2(a, b, opNames[op])
	w := a.S.W
	if a.IsConst() && b.IsConst() {
		x, y := a.Val, b.Val
		var r uint64
		switch op {
		case OAdd:
			r = x + y
		case OSub:
			r = x - y
		case OMul:
			r = x * y
		case OUDiv:
			if y == 0 {
				r = mask(w)
			} else {
				r = x / y
			}
		case OURem:
			if y == 0 {
				r = x
			} else {
				r = x % y
			}
		case OSDiv:
			sx, sy := sext64(x, w), sext64(y, w)
			if sy == 0 {
				if sx >= 0 {
					r = mask(w)
				} else {
					r = 1
				}
			} else if sy == -1 {
				r = uint64(-sx)
			} else {
				r = uint64(sx / sy)
			}
		case OSRem:
			sx, sy := sext64(x, w), sext64(y, w)
			if sy == 0 {
				r = x
			} else if sy == -1 {
				r = 0
			} else {
				r = uint64(sx % sy)
			}
		case OBAnd:
			r = x & y
		case OBOr:
			r = x | y
		case OBXor:
			r = x ^ y
		case OShl:
			if y >= uint64(w) {
				r = 0
			} else {
				r = x << y
			}
		case OLShr:
			if y >= uint64(w) {
				r = 0
			} else {
				r = x >> y
			}
		case OAShr:
			sx := sext64(x, w)
			if y >= uint64(w) {
				if sx < 0 {
					r = mask(w)
				} else {
					r = 0
				}
			} else {
				r = uint64(sx >> y)
			}
		default:
			panic("smt: bad bin op")
		}
		return c.BV(r, w)
	}
	// light algebraic identities
	switch op {
	case OAdd:
		if a.IsConst() && a.Val == 0 {
			return b
		}
		if b.IsConst() && b.Val == 0 {
			return a
		}
		// (x + k1) + k2
		if b.IsConst() && a.Op == OAdd && a.Args[1].IsConst() {
			return c.Bin(OAdd, a.Args[0], c.BV(a.Args[1].Val+b.Val, w))
		}
		if a.IsConst() {
			a, b = b, a
		}
	case OSub:
		if b.IsConst() && b.Val == 0 {
			return a
		}
		if a == b {
			return c.BV(0, w)
		}
		if b.IsConst() {
			return c.Bin(OAdd, a, c.BV(-b.Val, w))
		}
	case OMul:
		if a.IsConst() {
			a, b = b, a
		}
		if b.IsConst() && b.Val == 1 {
			return a
		}
		if b.IsConst() && b.Val == 0 {
			return b
		}
	case OBAnd:
		if a == b {
			return a
		}
		if b.IsConst() && b.Val == 0 {
			return b
		}
		if a.IsConst() && a.Val == 0 {
			return a
		}
		if b.IsConst() && b.Val == mask(w) {
			return a
		}
	case OBOr, OBXor:
		if b.IsConst() && b.Val == 0 {
			return a
		}
		if a.IsConst() && a.Val == 0 {
			return b
		}
	case OShl, OLShr, OAShr:
		if b.IsConst() && b.Val == 0 {
			return a
		}
	}
	return c.mk(op, a.S, 0, "", 0, 0, a, b)
}

func (c *Ctx) Cmp(op Op, a, b *Term) *Term {
	c.checkBV2(a, b, opNames[op])
	w := a.S.W
	if a.IsConst() && b.IsConst() {
		switch op {
		case OULT:
			return c.Bool(a.Val < b.Val)
		case OULE:
			return c.Bool(a.Val <= b.Val)
		case OSLT:
			return c.Bool(sext64(a.Val, w) < sext64(b.Val, w))
		case OSLE:
			return c.Bool(sext64(a.Val, w) <= sext64(b.Val, w))
		}
	}
	if a == b {
		return c.Bool(op == OULE || op == OSLE)
	}
	uop := op
	if (op == OSLT || op == OSLE) && a.Hi <= mask(w-1) && b.Hi <= mask(w-1) {
		// both operands are non-negative: signed and unsigned order agree
		if op == OSLT {
			uop = OULT
		} else {
			uop = OULE
		}
	}
	switch uop {
	case OULT:
		if a.Hi < b.Lo {
			return c.True()
		}
		if a.Lo >= b.Hi {
			return c.False()
		}
		// x + y < x is the overflow test; false when the sum cannot wrap
		if noOverflowAdd(a) && (a.Args[0] == b || a.Args[1] == b) {
			return c.False()
		}
	case OULE:
		if a.Hi <= b.Lo {
			return c.True()
		}
		if a.Lo > b.Hi {
			return c.False()
		}
		if noOverflowAdd(b) && (b.Args[0] == a || b.Args[1] == a) {
			return c.True()
		}
	}
	return c.mk(op, BoolSort, 0, "", 0, 0, a, b)
}

func (c *Ctx) Extract(hi, lo int, a *Term) *Term {
	if a.S.K != KBV || hi >= a.S.W || lo < 0 || hi < lo {
		panic("smt: bad extract")
	}
	w := hi - lo + 1
	if w == a.S.W {
		return a
	}
	if a.IsConst() {
		return c.BV(a.Val>>uint(lo), w)
	}
	if lo == 0 && (a.Op == OZext || a.Op == OSext) {
		inner := a.Args[0]
		if w == inner.S.W {
			return inner
		}
		if w < inner.S.W {
			return c.Extract(hi, 0, inner)
		}
		if a.Op == OZext {
			return c.Zext(inner, w)
		}
		return c.Sext(inner, w)
	}
	return c.mk(OExtract, BVSort(w), 0, "", hi, lo, a)
}

// Zext extends a to width w (w >= a.S.W).
func (c *Ctx) Zext(a *Term, w int) *Term {
	if w == a.S.W {
		return a
	}
	if w < a.S.W {
		panic("smt: zext narrows")
	}
	if a.IsConst() {
		return c.BV(a.Val, w)
	}
	if a.Op == OZext {
		return c.Zext(a.Args[0], w)
	}
	return c.mk(OZext, BVSort(w), 0, "", w-a.S.W, 0, a)
}

func (c *Ctx) Sext(a *Term, w int) *Term {
	if w == a.S.W {
		return a
	}
	if w < a.S.W {
		panic("smt: sext narrows")
	}
	if a.IsConst() {
		return c.BV(uint64(sext64(a.Val, a.S.W)), w)
	}
	return c.mk(OSext, BVSort(w), 0, "", w-a.S.W, 0, a)
}

func (c *Ctx) Concat(hi, lo *Term) *Term {
	w := hi.S.W + lo.S.W
	if w > 64 {
		panic("smt: concat wider than 64")
	}
	if hi.IsConst() && lo.IsConst() {
		return c.BV(hi.Val<<uint(lo.S.W)|lo.Val, w)
	}
	return c.mk(OConcat, BVSort(w), 0, "", 0, 0, hi, lo)
}

func (c *Ctx) Select(arr, idx *Term) *Term {
	if arr.S.K != KArr || idx.S != BVSort(64) {
		panic("smt: bad select")
	}
	// read-over-write with syntactically decidable indices
	for arr.Op == OStore {
		si := arr.Args[1]
		if si == idx {
			return arr.Args[2]
		}
		if si.IsConst() && idx.IsConst() {
			arr = arr.Args[0]
			continue
		}
		break
	}
	return c.mk(OSelect, BVSort(8), 0, "", 0, 0, arr, idx)
}

func (c *Ctx) Store(arr, idx, v *Term) *Term {
	if arr.S.K != KArr || idx.S != BVSort(64) || v.S != BVSort(8) {
		panic("smt: bad store")
	}
	return c.mk(OStore, ArrSort, 0, "", 0, 0, arr, idx, v)
}

// popcount helper kept for callers that model math/bits.
func PopCount(v uint64) int { return bits.OnesCount64(v) }

// ---------------------------------------------------------------------------
// printing

func (t *Term) leafString() (string, bool) {
	switch t.Op {
	case OVar:
		return "|" + t.Name + "|", true
	case OConst:
		if t.S.K == KBool {
			if t.Val == 1 {
				return "true", true
			}
			return "false", true
		}
		if t.S.W%4 == 0 {
			return fmt.Sprintf("#x%0*x", t.S.W/4, t.Val), true
		}
		return fmt.Sprintf("#b%0*b", t.S.W, t.Val), true
	}
	return "", false
}

// Ref is how a term is referred to inside other terms once defined.
func (t *Term) Ref() string {
	if s, ok := t.leafString(); ok {
		return s
	}
	return fmt.Sprintf("t%d", t.ID)
}

// Body prints the term one level deep, referring to arguments by Ref.
func (t *Term) Body() string {
	if s, ok := t.leafString(); ok {
		return s
	}
	var sb strings.Builder
	switch t.Op {
	case OExtract:
		fmt.Fprintf(&sb, "((_ extract %d %d) %s)", t.I, t.J, t.Args[0].Ref())
		return sb.String()
	case OZext:
		fmt.Fprintf(&sb, "((_ zero_extend %d) %s)", t.I, t.Args[0].Ref())
		return sb.String()
	case OSext:
		fmt.Fprintf(&sb, "((_ sign_extend %d) %s)", t.I, t.Args[0].Ref())
		return sb.String()
	}
	sb.WriteString("(")
	sb.WriteString(opNames[t.Op])
	for _, a := range t.Args {
		sb.WriteString(" ")
		sb.WriteString(a.Ref())
	}
	sb.WriteString(")")
	return sb.String()
}

// String prints the full term tree (debugging, evidence samples). Depth-limited.
func (t *Term) String() string { return t.str(6) }

func (t *Term) str(d int) string {
	if s, ok := t.leafString(); ok {
		return s
	}
	if d == 0 {
		return "…"
	}
	var sb strings.Builder
	switch t.Op {
	case OExtract:
		return fmt.Sprintf("((_ extract %d %d) %s)", t.I, t.J, t.Args[0].str(d-1))
	case OZext:
		return fmt.Sprintf("((_ zero_extend %d) %s)", t.I, t.Args[0].str(d-1))
	case OSext:
		return fmt.Sprintf("((_ sign_extend %d) %s)", t.I, t.Args[0].str(d-1))
	}
	sb.WriteString("(")
	sb.WriteString(opNames[t.Op])
	for _, a := range t.Args {
		sb.WriteString(" ")
		sb.WriteString(a.str(d - 1))
	}
	sb.WriteString(")")
	return sb.String()
}

// Eval evaluates a term under an assignment of variables (by name). Arrays
// are given as maps index->byte with a default of 0.
type Model struct {
	BV  map[string]uint64
	Arr map[string]map[uint64]uint8
	Def map[string]uint8
}

func (m *Model) Eval(t *Term) uint64 {
	memo := map[int]uint64{}
	return m.eval(t, memo)
}

type arrVal struct {
	base string
	ov   map[uint64]uint8
}

func (m *Model) evalArr(t *Term, memo map[int]uint64) func(uint64) uint8 {
	switch t.Op {
	case OVar:
		return func(i uint64) uint8 {
			if a, ok := m.Arr[t.Name]; ok {
				if v, ok := a[i]; ok {
					return v
				}
			}
			return m.Def[t.Name]
		}
	case OStore:
		inner := m.evalArr(t.Args[0], memo)
		idx := m.eval(t.Args[1], memo)
		v := uint8(m.eval(t.Args[2], memo))
		return func(i uint64) uint8 {
			if i == idx {
				return v
			}
			return inner(i)
		}
	case OIte:
		if m.eval(t.Args[0], memo) == 1 {
			return m.evalArr(t.Args[1], memo)
		}
		return m.evalArr(t.Args[2], memo)
	}
	panic("smt: evalArr on " + t.String())
}

func (m *Model) eval(t *Term, memo map[int]uint64) uint64 {
	if v, ok := memo[t.ID]; ok {
		return v
	}
	var r uint64
	switch t.Op {
	case OConst:
		r = t.Val
	case OVar:
		r = m.BV[t.Name] & mask(maxInt(t.S.W, 1))
		if t.S.K == KBool {
			r = m.BV[t.Name] & 1
		}
	case ONot:
		r = 1 - m.eval(t.Args[0], memo)
	case OAnd:
		r = 1
		for _, a := range t.Args {
			if m.eval(a, memo) == 0 {
				r = 0
				break
			}
		}
	case OOr:
		r = 0
		for _, a := range t.Args {
			if m.eval(a, memo) == 1 {
				r = 1
				break
			}
		}
	case OIte:
		if m.eval(t.Args[0], memo) == 1 {
			r = m.eval(t.Args[1], memo)
		} else {
			r = m.eval(t.Args[2], memo)
		}
	case OEq:
		if t.Args[0].S.K == KArr {
			panic("smt: array equality in Eval")
		}
		if m.eval(t.Args[0], memo) == m.eval(t.Args[1], memo) {
			r = 1
		}
	case OSelect:
		r = uint64(m.evalArr(t.Args[0], memo)(m.eval(t.Args[1], memo)))
	case OExtract:
		r = (m.eval(t.Args[0], memo) >> uint(t.J)) & mask(t.S.W)
	case OZext:
		r = m.eval(t.Args[0], memo)
	case OSext:
		r = uint64(sext64(m.eval(t.Args[0], memo), t.Args[0].S.W)) & mask(t.S.W)
	case OConcat:
		r = m.eval(t.Args[0], memo)<<uint(t.Args[1].S.W) | m.eval(t.Args[1], memo)
	case OULT, OULE, OSLT, OSLE:
		c := NewCtx()
		x := c.Cmp(t.Op, c.BV(m.eval(t.Args[0], memo), t.Args[0].S.W), c.BV(m.eval(t.Args[1], memo), t.Args[0].S.W))
		r = x.Val
	default:
		c := NewCtx()
		x := c.Bin(t.Op, c.BV(m.eval(t.Args[0], memo), t.S.W), c.BV(m.eval(t.Args[1], memo), t.S.W))
		r = x.Val
	}
	memo[t.ID] = r
	return r
}

func maxInt(a, b int) int {
	if a > b {
		return a
	}
	return b
}
