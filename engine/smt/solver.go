package smt

import (
	"bufio"
	"fmt"
	"io"
	"os"
	"os/exec"
	"strconv"
	"strings"
	"time"
)

type Result int

const (
	Sat Result = iota
	Unsat
	Unknown
)

func (r Result) String() string { return [...]string{"sat", "unsat", "unknown"}[r] }

// Backend describes one solver command line.
type Backend struct {
	Name string
	Argv []string
	// TimeoutOpt returns the SMT-LIB command (or "") that sets a per-query timeout.
	TimeoutOpt func(ms int) string
	NoArrays   bool
}

func Z3(bin string) Backend {
	return Backend{Name: bin, Argv: []string{bin, "-in", "-smt2"},
		TimeoutOpt: func(ms int) string { return fmt.Sprintf("(set-option :timeout %d)", ms) }}
}

func CVC5Int(ms int) Backend {
	return Backend{Name: "cvc5-bv-as-int", Argv: []string{"cvc5", "--incremental", "--lang=smt2", "--solve-bv-as-int=sum",
		fmt.Sprintf("--tlimit-per=%d", ms)}, TimeoutOpt: func(int) string { return "" }}
}

func CVC5(ms int) Backend {
	return Backend{Name: "cvc5", Argv: []string{"cvc5", "--incremental", "--lang=smt2",
		fmt.Sprintf("--tlimit-per=%d", ms)}, TimeoutOpt: func(int) string { return "" }}
}

type proc struct {
	be      Backend
	cmd     *exec.Cmd
	in      io.WriteCloser
	out     *bufio.Reader
	lines   chan string
	emitted map[int]bool
	depth   int // push depth currently in the process
	dead    bool
	log     io.Writer
}

type Stats struct {
	Queries  int
	Sat      int
	Unsat    int
	Unknown  int
	Errors   int
	Seconds  float64
	ByEngine map[string]int
}

// Solver keeps an assertion stack and mirrors it into a primary solver
// process incrementally; fallback back ends are brought up to date by
// replaying the whole stack when the primary answers unknown.
type Solver struct {
	C         *Ctx
	primary   *proc
	fallbacks []Backend
	levels    [][]*Term
	TimeoutMS int
	Stats     Stats
	LogPath   string
	logf      *os.File
	LastErr   string

	pendingPop bool  // a query frame is still pushed in the primary (model alive)
	modelProc  *proc // process holding the model of the last Sat answer
	fbProc     *proc // fallback process kept alive for its model
}

func NewSolver(c *Ctx, primary Backend, timeoutMS int, fallbacks ...Backend) (*Solver, error) {
	s := &Solver{C: c, TimeoutMS: timeoutMS, fallbacks: fallbacks, levels: [][]*Term{nil}}
	s.Stats.ByEngine = map[string]int{}
	p, err := s.start(primary)
	if err != nil {
		return nil, err
	}
	s.primary = p
	return s, nil
}

func (s *Solver) SetLog(path string) {
	f, err := os.Create(path)
	if err == nil {
		s.logf = f
		s.primary.log = f
	}
}

func (s *Solver) start(be Backend) (*proc, error) {
	cmd := exec.Command(be.Argv[0], be.Argv[1:]...)
	in, err := cmd.StdinPipe()
	if err != nil {
		return nil, err
	}
	outp, err := cmd.StdoutPipe()
	if err != nil {
		return nil, err
	}
	cmd.Stderr = cmd.Stdout
	if err := cmd.Start(); err != nil {
		return nil, err
	}
	p := &proc{be: be, cmd: cmd, in: in, out: bufio.NewReaderSize(outp, 1<<20), emitted: map[int]bool{}, lines: make(chan string, 64)}
	go func() {
		for {
			line, err := p.out.ReadString('\n')
			if line != "" {
				p.lines <- strings.TrimRight(line, "\r\n")
			}
			if err != nil {
				close(p.lines)
				return
			}
		}
	}()
	p.send("(set-option :print-success false)")
	p.send("(set-option :global-declarations true)")
	p.send("(set-option :produce-models true)")
	if o := be.TimeoutOpt(s.TimeoutMS); o != "" {
		p.send(o)
	}
	p.send("(set-logic ALL)")
	return p, nil
}

func (p *proc) send(cmd string) {
	if p.dead {
		return
	}
	if p.log != nil {
		fmt.Fprintln(p.log, cmd)
	}
	if _, err := io.WriteString(p.in, cmd+"\n"); err != nil {
		p.dead = true
	}
}

func (p *proc) kill() {
	p.dead = true
	_ = p.in.Close()
	if p.cmd.Process != nil {
		_ = p.cmd.Process.Kill()
	}
	go func() { _ = p.cmd.Wait() }()
}

func (s *Solver) Close() {
	if s.primary != nil {
		s.primary.send("(exit)")
		s.primary.kill()
	}
	if s.logf != nil {
		s.logf.Close()
	}
}

// define makes sure t (and its sub-terms) are known to p.
func (p *proc) define(t *Term) {
	if p.emitted[t.ID] {
		return
	}
	// iterative post-order
	type fr struct {
		t *Term
		i int
	}
	st := []fr{{t, 0}}
	for len(st) > 0 {
		top := &st[len(st)-1]
		if p.emitted[top.t.ID] {
			st = st[:len(st)-1]
			continue
		}
		if top.i < len(top.t.Args) {
			a := top.t.Args[top.i]
			top.i++
			if !p.emitted[a.ID] {
				st = append(st, fr{a, 0})
			}
			continue
		}
		tt := top.t
		switch tt.Op {
		case OVar:
			p.send(fmt.Sprintf("(declare-fun |%s| () %s)", tt.Name, tt.S))
		case OConst:
		default:
			p.send(fmt.Sprintf("(define-fun t%d () %s %s)", tt.ID, tt.S, tt.Body()))
		}
		p.emitted[tt.ID] = true
		st = st[:len(st)-1]
	}
}

func (s *Solver) Depth() int { return len(s.levels) - 1 }

func (s *Solver) Push() {
	s.popPending()
	s.levels = append(s.levels, nil)
	s.primary.send("(push 1)")
	s.primary.depth++
}

func (s *Solver) Pop(n int) {
	if n <= 0 {
		return
	}
	if n > len(s.levels)-1 {
		panic("smt: pop below level 0")
	}
	s.popPending()
	s.levels = s.levels[:len(s.levels)-n]
	s.primary.send(fmt.Sprintf("(pop %d)", n))
	s.primary.depth -= n
}

func (s *Solver) Assert(t *Term) {
	if t.IsTrue() {
		return
	}
	s.popPending()
	s.levels[len(s.levels)-1] = append(s.levels[len(s.levels)-1], t)
	s.primary.define(t)
	s.primary.send("(assert " + t.Ref() + ")")
}

// readLine waits for a line from the process, up to the hard deadline.
func (p *proc) readLine(d time.Duration) (string, bool) {
	select {
	case l, ok := <-p.lines:
		if !ok {
			p.dead = true
			return "", false
		}
		return l, true
	case <-time.After(d):
		return "", false
	}
}

func (s *Solver) hardLimit() time.Duration {
	return time.Duration(s.TimeoutMS)*time.Millisecond + 5*time.Second
}

func (s *Solver) checkOn(p *proc) Result {
	p.send("(check-sat)")
	for {
		l, ok := p.readLine(s.hardLimit())
		if !ok {
			s.LastErr = "solver " + p.be.Name + " gave no answer (killed)"
			s.Stats.Errors++
			p.kill()
			return Unknown
		}
		switch strings.TrimSpace(l) {
		case "sat":
			return Sat
		case "unsat":
			return Unsat
		case "unknown", "timeout":
			return Unknown
		case "":
			continue
		}
		if strings.Contains(l, "error") {
			s.LastErr = p.be.Name + ": " + l
			s.Stats.Errors++
			if s.logf != nil {
				fmt.Fprintln(s.logf, "; ERROR "+l)
			}
			if strings.Contains(l, "fatal") {
				p.kill()
				return Unknown
			}
			// an (error ...) answer to check-sat: inconclusive
			if strings.HasPrefix(strings.TrimSpace(l), "(error") {
				return Unknown
			}
			continue
		}
		// unsupported / warnings: ignore
	}
}

func (s *Solver) restartPrimary() error {
	be := s.primary.be
	p, err := s.start(be)
	if err != nil {
		return err
	}
	p.log = s.logf
	s.primary = p
	s.pendingPop = false
	for i, lv := range s.levels {
		if i > 0 {
			p.send("(push 1)")
			p.depth++
		}
		for _, t := range lv {
			p.define(t)
			p.send("(assert " + t.Ref() + ")")
		}
	}
	return nil
}

// Check decides satisfiability of the stack plus extra assumptions. When it
// returns Sat the primary (or answering fallback) holds a model until the
// next command; use Values immediately.
func (s *Solver) Check(extra ...*Term) Result {
	t0 := time.Now()
	defer func() { s.Stats.Seconds += time.Since(t0).Seconds() }()
	s.Stats.Queries++
	for _, e := range extra {
		if e.IsFalse() {
			s.Stats.Unsat++
			s.modelProc = nil
			return Unsat
		}
	}
	if s.primary.dead {
		if err := s.restartPrimary(); err != nil {
			s.Stats.Unknown++
			return Unknown
		}
	}
	p := s.primary
	s.popPending()
	p.send("(push 1)")
	for _, e := range extra {
		if e.IsTrue() {
			continue
		}
		p.define(e)
		p.send("(assert " + e.Ref() + ")")
	}
	r := s.checkOn(p)
	s.pendingPop = !p.dead
	s.modelProc = p
	if r != Unknown {
		s.Stats.ByEngine[p.be.Name]++
	}
	if r == Unknown {
		for _, be := range s.fallbacks {
			fr := s.checkFallback(be, extra)
			if fr != Unknown {
				s.Stats.ByEngine[be.Name]++
				r = fr
				break
			}
		}
	}
	switch r {
	case Sat:
		s.Stats.Sat++
	case Unsat:
		s.Stats.Unsat++
	default:
		s.Stats.Unknown++
	}
	return r
}

func (s *Solver) popPending() {
	if s.pendingPop {
		s.primary.send("(pop 1)")
		s.pendingPop = false
	}
	if s.fbProc != nil {
		s.fbProc.send("(exit)")
		s.fbProc.kill()
		s.fbProc = nil
	}
}

func (s *Solver) checkFallback(be Backend, extra []*Term) Result {
	p, err := s.start(be)
	if err != nil {
		return Unknown
	}
	p.log = s.logf
	if s.logf != nil {
		fmt.Fprintln(s.logf, "; ---- fallback "+be.Name)
	}
	for _, lv := range s.levels {
		for _, t := range lv {
			p.define(t)
			p.send("(assert " + t.Ref() + ")")
		}
	}
	for _, e := range extra {
		p.define(e)
		p.send("(assert " + e.Ref() + ")")
	}
	r := s.checkOn(p)
	if r == Sat {
		if s.fbProc != nil {
			s.fbProc.kill()
		}
		s.fbProc = p
		s.modelProc = p
	} else {
		p.send("(exit)")
		p.kill()
	}
	return r
}

// Values returns the model values of the given terms after a Sat answer.
func (s *Solver) Values(ts []*Term) ([]uint64, error) {
	p := s.modelProc
	if p == nil || p.dead {
		return nil, fmt.Errorf("no model available")
	}
	out := make([]uint64, len(ts))
	const batch = 200
	for i := 0; i < len(ts); i += batch {
		j := i + batch
		if j > len(ts) {
			j = len(ts)
		}
		var sb strings.Builder
		sb.WriteString("(get-value (")
		any := false
		for _, t := range ts[i:j] {
			if t.IsConst() {
				continue
			}
			p.define(t)
			sb.WriteString(t.Ref())
			sb.WriteString(" ")
			any = true
		}
		sb.WriteString("))")
		var vals []string
		if any {
			p.send(sb.String())
			txt, err := s.readSexp(p)
			if err != nil {
				return nil, err
			}
			vals, err = parseValues(txt)
			if err != nil {
				return nil, fmt.Errorf("%v in %q", err, txt)
			}
		}
		k := 0
		for idx, t := range ts[i:j] {
			if t.IsConst() {
				out[i+idx] = t.Val
				continue
			}
			if k >= len(vals) {
				return nil, fmt.Errorf("short get-value answer")
			}
			v, err := parseLit(vals[k])
			if err != nil {
				return nil, err
			}
			out[i+idx] = v
			k++
		}
	}
	return out, nil
}

func (s *Solver) readSexp(p *proc) (string, error) {
	var sb strings.Builder
	depth := 0
	started := false
	for {
		l, ok := p.readLine(s.hardLimit())
		if !ok {
			return "", fmt.Errorf("solver gave no get-value answer")
		}
		if strings.HasPrefix(strings.TrimSpace(l), "(error") {
			return "", fmt.Errorf("solver: %s", l)
		}
		sb.WriteString(l)
		sb.WriteString(" ")
		for _, ch := range l {
			if ch == '(' {
				depth++
				started = true
			} else if ch == ')' {
				depth--
			}
		}
		if started && depth <= 0 {
			return sb.String(), nil
		}
	}
}

// parseValues splits "((a v) (b v) ...)" into the value strings.
func parseValues(txt string) ([]string, error) {
	toks := tokenize(txt)
	// expect ( ( name val ) ... )
	var out []string
	i := 0
	if i >= len(toks) || toks[i] != "(" {
		return nil, fmt.Errorf("bad get-value answer")
	}
	i++
	for i < len(toks) && toks[i] == "(" {
		i++
		// name: atom or parenthesised expr
		i = skipExpr(toks, i)
		start := i
		i = skipExpr(toks, i)
		out = append(out, strings.Join(toks[start:i], " "))
		if i >= len(toks) || toks[i] != ")" {
			return nil, fmt.Errorf("bad pair in get-value answer")
		}
		i++
	}
	return out, nil
}

func skipExpr(toks []string, i int) int {
	if i >= len(toks) {
		return i
	}
	if toks[i] != "(" {
		return i + 1
	}
	d := 0
	for i < len(toks) {
		if toks[i] == "(" {
			d++
		} else if toks[i] == ")" {
			d--
			if d == 0 {
				return i + 1
			}
		}
		i++
	}
	return i
}

func tokenize(s string) []string {
	var toks []string
	i := 0
	for i < len(s) {
		ch := s[i]
		switch {
		case ch == '(' || ch == ')':
			toks = append(toks, string(ch))
			i++
		case ch == ' ' || ch == '\t' || ch == '\n' || ch == '\r':
			i++
		case ch == '|':
			j := i + 1
			for j < len(s) && s[j] != '|' {
				j++
			}
			toks = append(toks, s[i:minInt(j+1, len(s))])
			i = j + 1
		default:
			j := i
			for j < len(s) && !strings.ContainsRune("() \t\n\r", rune(s[j])) {
				j++
			}
			toks = append(toks, s[i:j])
			i = j
		}
	}
	return toks
}

func minInt(a, b int) int {
	if a < b {
		return a
	}
	return b
}

func parseLit(v string) (uint64, error) {
	v = strings.TrimSpace(v)
	switch {
	case v == "true":
		return 1, nil
	case v == "false":
		return 0, nil
	case strings.HasPrefix(v, "#x"):
		return strconv.ParseUint(v[2:], 16, 64)
	case strings.HasPrefix(v, "#b"):
		return strconv.ParseUint(v[2:], 2, 64)
	case strings.HasPrefix(v, "( _ bv"):
		f := strings.Fields(v)
		return strconv.ParseUint(strings.TrimPrefix(f[2], "bv"), 10, 64)
	}
	return 0, fmt.Errorf("cannot parse model value %q", v)
}
