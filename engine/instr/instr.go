// Package instr rewrites the package under test for native replay: a call to
// verifSyncPoint() is inserted before every statement that performs a
// synchronisation operation (the same operations at which the symbolic
// engine lets the environment / the scheduler act), deferred unlocks yield
// before they run, and goroutines announce themselves. The rewritten files are
// used only through `go test -overlay`; nothing is written into the repository.
package instr

import (
	"bytes"
	"go/ast"
	"go/printer"
	"go/token"
	"go/types"
	"strings"
)

type Instrumenter struct {
	Fset *token.FileSet
	Info *types.Info
	N    int // sync points inserted
}

func namedOf(t types.Type) (pkg, name string) {
	if p, ok := t.(*types.Pointer); ok {
		t = p.Elem()
	}
	if n, ok := t.(*types.Named); ok && n.Obj().Pkg() != nil {
		return n.Obj().Pkg().Path(), n.Obj().Name()
	}
	return "", ""
}

// isSyncCall reports whether call is one of the modelled synchronisation operations.
func (in *Instrumenter) isSyncCall(call *ast.CallExpr) bool {
	switch fun := call.Fun.(type) {
	case *ast.SelectorExpr:
		sel := in.Info.Selections[fun]
		if sel != nil && sel.Kind() == types.MethodVal {
			pkg, name := namedOf(sel.Recv())
			m := fun.Sel.Name
			switch pkg {
			case "sync":
				switch name {
				case "Mutex", "RWMutex":
					return m == "Lock" || m == "Unlock" || m == "RLock" || m == "RUnlock" || m == "TryLock"
				case "Cond":
					return m == "Wait" || m == "Signal" || m == "Broadcast"
				case "Once":
					return m == "Do"
				case "WaitGroup":
					return m == "Add" || m == "Done" || m == "Wait"
				}
			case "sync/atomic":
				return m == "Load" || m == "Store" || m == "Add" || m == "Swap" || m == "CompareAndSwap"
			}
			return false
		}
		// package-level atomic functions
		if id, ok := fun.X.(*ast.Ident); ok {
			if pn, ok := in.Info.Uses[id].(*types.PkgName); ok && pn.Imported().Path() == "sync/atomic" {
				return true
			}
		}
	case *ast.Ident:
		if fun.Name == "close" {
			if _, ok := in.Info.Uses[fun].(*types.Builtin); ok {
				return true
			}
		}
	}
	return false
}

// countSync counts synchronisation operations evaluated by n itself (not
// inside nested function literals or nested statement bodies).
func (in *Instrumenter) countSync(n ast.Node) int {
	if n == nil {
		return 0
	}
	c := 0
	ast.Inspect(n, func(x ast.Node) bool {
		switch x := x.(type) {
		case *ast.FuncLit:
			return false
		case *ast.BlockStmt:
			return x == n
		case *ast.CallExpr:
			if in.isSyncCall(x) {
				c++
			}
		case *ast.UnaryExpr:
			if x.Op == token.ARROW {
				c++
			}
		case *ast.SendStmt:
			c++
		}
		return true
	})
	return c
}

// isRelease: a synchronisation operation that releases / publishes (and has no result).
func (in *Instrumenter) isRelease(call *ast.CallExpr) bool {
	if !in.isSyncCall(call) {
		return false
	}
	switch fun := call.Fun.(type) {
	case *ast.SelectorExpr:
		switch fun.Sel.Name {
		case "Unlock", "RUnlock", "Signal", "Broadcast", "Store", "Done":
			return true
		}
	case *ast.Ident:
		return fun.Name == "close"
	}
	return false
}

func syncAfterCall() ast.Stmt {
	return &ast.ExprStmt{X: &ast.CallExpr{Fun: ast.NewIdent("verifSyncAfter")}}
}

func syncCall() ast.Stmt {
	return &ast.ExprStmt{X: &ast.CallExpr{Fun: ast.NewIdent("verifSyncPoint")}}
}

func (in *Instrumenter) list(stmts []ast.Stmt) []ast.Stmt {
	var out []ast.Stmt
	for _, s := range stmts {
		n := 0
		switch s := s.(type) {
		case *ast.SelectStmt:
			n = 1
			for _, cl := range s.Body.List {
				cc := cl.(*ast.CommClause)
				cc.Body = in.list(cc.Body)
			}
		case *ast.DeferStmt:
			if in.isSyncCall(s.Call) {
				// defer x.Unlock()  =>  defer func() { verifSyncPoint(); x.Unlock() }()
				in.N++
				body := []ast.Stmt{syncCall(), &ast.ExprStmt{X: s.Call}}
				if in.isRelease(s.Call) {
					body = append(body, syncAfterCall())
				}
				s.Call = &ast.CallExpr{Fun: &ast.FuncLit{
					Type: &ast.FuncType{Params: &ast.FieldList{}},
					Body: &ast.BlockStmt{List: body},
				}}
			} else {
				in.funcLits(s.Call)
			}
		case *ast.GoStmt:
			in.funcLits(s.Call)
			// go f(x)  =>  { vt := verifNewThread(); go func() { verifThreadBegin(vt); defer verifThreadEnd(vt); f(x) }() }
			in.N++
			vt := ast.NewIdent("verifThreadID_")
			out = append(out, &ast.BlockStmt{List: []ast.Stmt{
				&ast.AssignStmt{Lhs: []ast.Expr{vt}, Tok: token.DEFINE, Rhs: []ast.Expr{&ast.CallExpr{Fun: ast.NewIdent("verifNewThread")}}},
				&ast.GoStmt{Call: &ast.CallExpr{Fun: &ast.FuncLit{
					Type: &ast.FuncType{Params: &ast.FieldList{}},
					Body: &ast.BlockStmt{List: []ast.Stmt{
						&ast.ExprStmt{X: &ast.CallExpr{Fun: ast.NewIdent("verifThreadBegin"), Args: []ast.Expr{vt}}},
						&ast.DeferStmt{Call: &ast.CallExpr{Fun: ast.NewIdent("verifThreadEnd"), Args: []ast.Expr{vt}}},
						&ast.ExprStmt{X: s.Call},
					}},
				}}},
			}})
			continue
		case *ast.IfStmt:
			n = in.countSync(s.Init) + in.countSync(s.Cond)
			in.stmt(s)
		case *ast.SwitchStmt:
			n = in.countSync(s.Init) + in.countSync(s.Tag)
			in.stmt(s)
		case *ast.TypeSwitchStmt:
			n = in.countSync(s.Init) + in.countSync(s.Assign)
			in.stmt(s)
		case *ast.ForStmt, *ast.RangeStmt, *ast.BlockStmt, *ast.LabeledStmt:
			if r, ok := s.(*ast.RangeStmt); ok {
				if t := in.Info.TypeOf(r.X); t != nil {
					if _, isChan := t.Underlying().(*types.Chan); isChan {
						n = 1
					}
				}
			}
			in.stmt(s)
		default:
			n = in.countSync(s)
			in.funcLits(s)
		}
		for i := 0; i < n; i++ {
			in.N++
			out = append(out, syncCall())
		}
		out = append(out, s)
		switch s := s.(type) {
		case *ast.ExprStmt:
			if call, ok := s.X.(*ast.CallExpr); ok && in.isRelease(call) {
				out = append(out, syncAfterCall())
			}
		case *ast.SendStmt:
			out = append(out, syncAfterCall())
		}
	}
	return out
}

func (in *Instrumenter) stmt(s ast.Stmt) {
	switch s := s.(type) {
	case *ast.BlockStmt:
		s.List = in.list(s.List)
	case *ast.IfStmt:
		in.funcLits(s.Init)
		in.funcLits(s.Cond)
		in.stmt(s.Body)
		if s.Else != nil {
			in.stmt(s.Else)
		}
	case *ast.ForStmt:
		in.stmt(s.Body)
	case *ast.RangeStmt:
		in.stmt(s.Body)
	case *ast.LabeledStmt:
		in.stmt(s.Stmt)
	case *ast.SwitchStmt:
		for _, cl := range s.Body.List {
			cc := cl.(*ast.CaseClause)
			cc.Body = in.list(cc.Body)
		}
	case *ast.TypeSwitchStmt:
		for _, cl := range s.Body.List {
			cc := cl.(*ast.CaseClause)
			cc.Body = in.list(cc.Body)
		}
	case *ast.SelectStmt:
		for _, cl := range s.Body.List {
			cc := cl.(*ast.CommClause)
			cc.Body = in.list(cc.Body)
		}
	}
}

// funcLits instruments the bodies of function literals below n.
func (in *Instrumenter) funcLits(n ast.Node) {
	if n == nil {
		return
	}
	ast.Inspect(n, func(x ast.Node) bool {
		if fl, ok := x.(*ast.FuncLit); ok {
			fl.Body.List = in.list(fl.Body.List)
			return false
		}
		return true
	})
}

// File returns the instrumented source of f.
func (in *Instrumenter) File(f *ast.File) ([]byte, error) {
	for _, d := range f.Decls {
		if fd, ok := d.(*ast.FuncDecl); ok && fd.Body != nil {
			fd.Body.List = in.list(fd.Body.List)
		}
	}
	// comments are dropped: positions no longer match after the insertions
	f.Comments = nil
	var buf bytes.Buffer
	if err := printer.Fprint(&buf, in.Fset, f); err != nil {
		return nil, err
	}
	src := buf.String()
	// keep build constraints out of the way
	_ = strings.TrimSpace
	return []byte(src), nil
}
