package main

import (
	"encoding/json"
	"fmt"
	"os"
	"path/filepath"
	"sort"
)

func writeEvidence(prop, tier string, seed int, reg *Registry, ld *Loaded, runs []*harnessRun, violations, validated int, inconclusive []string, wall float64, knownSeen map[string]bool) {
	type obSample struct {
		Obligation string      `json:"obligation"`
		Harness    string      `json:"harness"`
		Where      string      `json:"where"`
		Reached    int         `json:"paths_reached"`
		Concrete   int         `json:"true_by_constant_folding"`
		Unsat      int         `json:"solver_unsat"`
		Violated   int         `json:"violated"`
		Unknown    int         `json:"unknown"`
		Verdict    string      `json:"verdict"`
		Witness    interface{} `json:"witness,omitempty"`
	}
	var samples []interface{}
	states, transitions := 0, 0
	funcs := map[string]bool{}
	queries := map[string]int{"sat": 0, "unsat": 0, "unknown": 0, "errors": 0}
	byEngine := map[string]int{}
	solverSecs := 0.0
	var harnessInfo []map[string]interface{}
	covers := map[string]int{}
	obTotal, obDischarged := 0, 0
	for _, r := range runs {
		if r.res == nil {
			continue
		}
		res := r.res
		states += res.Paths
		transitions += res.Stats.Queries
		queries["sat"] += res.Stats.Sat
		queries["unsat"] += res.Stats.Unsat
		queries["unknown"] += res.Stats.Unknown
		queries["errors"] += res.Stats.Errors
		solverSecs += res.Stats.Seconds
		for k, v := range res.Stats.ByEngine {
			byEngine[k] += v
		}
		for f := range res.Functions {
			funcs[f] = true
		}
		for k, v := range res.Covers {
			covers[r.name+":"+k] = v
		}
		harnessInfo = append(harnessInfo, map[string]interface{}{
			"harness": r.name, "func": r.spec.Func, "mode": r.spec.Mode, "bounds": r.spec.Bounds[tier], "params": paramsFor(r.spec, tier),
			"paths": res.Paths, "path_ends": res.PathsEnded, "exhausted": res.Exhausted, "interpreter_steps": res.Steps,
			"queries": res.Stats.Queries, "solver_seconds": round2(res.Stats.Seconds), "wall_seconds": round2(res.Seconds), "smt_terms": res.Terms,
		})
		var ids []string
		for id := range res.Obligations {
			if relevant(id, prop, r.spec) {
				ids = append(ids, id)
			}
		}
		sort.Strings(ids)
		for _, id := range ids {
			o := res.Obligations[id]
			verdict := "holds within bounds"
			if o.Violated > 0 {
				verdict = "violated"
			} else if o.Unknown > 0 {
				verdict = "inconclusive"
			}
			obTotal++
			if o.Violated == 0 && o.Unknown == 0 {
				obDischarged++
			}
			s := obSample{Obligation: id, Harness: r.name, Where: o.Pos, Reached: o.Reached, Concrete: o.Concrete, Unsat: o.Discharged, Violated: o.Violated, Unknown: o.Unknown, Verdict: verdict}
			for _, v := range res.Violations {
				if v.Obligation == id {
					s.Witness = map[string]interface{}{"inputs": describeInputs(v.Inputs), "msg": v.Msg}
					break
				}
			}
			samples = append(samples, s)
		}
		for i, c := range res.Concordance {
			if i < 2 {
				samples = append(samples, map[string]interface{}{"concordance_path_of": r.name, "inputs": describeInputs(c.Inputs), "predicted_observables": c.Observed})
			}
		}
	}
	if len(samples) == 0 {
		samples = append(samples, "no obligation was evaluated")
	}
	var fl []string
	for f := range funcs {
		fl = append(fl, f)
	}
	sort.Strings(fl)
	kf := []string{}
	for k := range knownSeen {
		kf = append(kf, k)
	}
	sort.Strings(kf)
	ps := reg.Props[prop]
	assumptions := []string{
		"A-BOUNDS: nothing is claimed outside the per-harness bounds listed below (message sizes, script lengths, number of streams/tunnels, operation sequences, delay bound of schedules)",
		"A-SC: sync/atomic is sequentially consistent; between two synchronisation operations of the package's own code a thread runs atomically (exact for data-race free executions; scheduling points are placed before every synchronisation operation and after every releasing one)",
		"A-STUB: environment contracts of the engine (sync, atomic, channels, fmt, errors.Is/As, proto.Marshal/Unmarshal/Clone carrying payload bytes unchanged, reflect as used by Invoke, context.WithTimeout as cancel context + recorded duration); context/list/strconv/strings/metadata/status/grpchan run from their real SSA bodies",
		"A-CARRIER: the carrier stream, peers, handlers and credentials are harness doubles: reliable in-order delivery or failure",
		"A-FRAME: frames have the shape protobuf unmarshalling yields (a populated oneof wrapper points to a non-nil message)",
		"A-MAPORDER: no dependence on Go's map iteration order (maps are iterated in insertion order)",
		"A-COMPOSE: the end-to-end statement follows from the unit obligations by the paper argument of DESIGN.md section 3",
	}
	if prop == "C15" {
		assumptions = append(assumptions,
			"RACE: on every explored path of every harness listed below each load/store of a memory cell and each map/slice-element access performed by the package's own code (and by metadata, container/list, grpchan on its behalf) is checked against a happens-before order built from vector clocks over the Go memory model's edges (go statement, mutex/RWMutex unlock->lock, channel send->receive, k-th receive->(k+cap)-th send, close->receive, atomics, Once, WaitGroup); an unordered conflicting pair is obligation C15.RACE@<pos>~<pos> and is reported only after `go test -race` on the natively compiled harness reports a race at one of the two positions. The T-RACE-BLIND twin (two unsynchronised appends) must be reported or the check fails as blind.",
			"RACE-OUTSIDE: accesses by application code (the harness) to values the library hands out, element writes inside protobuf/reflect intrinsics, and races that need a thread set or input outside the harness bounds are not covered; verifDrain and terminal hooks are treated as the barrier a test would use to wait for the other goroutines")
	}
	assumptions = append(assumptions, ps.Assumptions...)
	for _, r := range runs {
		if b := r.spec.Bounds[tier]; b != "" {
			assumptions = append(assumptions, "bound "+r.name+": "+b)
		}
	}
	if ps.Outside != "" {
		assumptions = append(assumptions, "outside the claim: "+ps.Outside)
	}
	if states == 0 {
		states = 1
	}
	if transitions == 0 {
		transitions = 1
	}
	ev := map[string]interface{}{
		"property_id": prop,
		"tier":        tier,
		"seed":        seed,
		"level":       "model_checking",
		"coverage": map[string]interface{}{
			"states":                        states,
			"transitions":                   transitions,
			"traces_validated_against_impl": validated,
			"samples":                       samples,
			"explanation":                   "bounded symbolic execution of the repository's own go/ssa, regenerated from /repo's working tree on this run; states = feasible paths explored (each a set of inputs/schedules decided by the solver), transitions = SMT queries discharged",
			"functions_encoded":             fl,
			"source_hashes":                 ld.SrcHash,
			"harnesses":                     harnessInfo,
			"queries":                       queries,
			"queries_by_engine":             byEngine,
			"solver_seconds":                round2(solverSecs),
			"load_seconds":                  round2(ld.LoadSecs),
			"cover_witnesses":               covers,
			"obligations":                   obTotal,
			"discharged":                    obDischarged,
			"known_findings_seen":           kf,
			"exhaustive":                    allExhausted(runs),
			"inconclusive":                  inconclusive,
			"trusted_base":                  append([]string{"go/ssa + go/types (x/tools v0.29.0, go1.24.0)", "gosmt engine (this repository; validated by native concordance replays)", "z3 4.8.12 (primary), cvc5 1.0.x (fallback on unknown)"}, ps.Trusted...),
		},
		"assumptions": assumptions,
		"wall_s":      round2(wall),
		"violations":  violations,
	}
	evDir := envOr("VERIF_EVIDENCE_DIR", filepath.Join(verifDir, "evidence"))
	os.MkdirAll(evDir, 0o755)
	b, _ := json.MarshalIndent(ev, "", " ")
	if err := os.WriteFile(filepath.Join(evDir, prop+".json"), b, 0o644); err != nil {
		fmt.Fprintln(os.Stderr, "writing evidence:", err)
	}
}

func round2(f float64) float64 { return float64(int(f*100+0.5)) / 100 }

// allExhausted: every harness explored its bounded path tree completely.
func allExhausted(runs []*harnessRun) bool {
	for _, r := range runs {
		if r.res == nil || !r.res.Exhausted {
			return false
		}
	}
	return true
}
