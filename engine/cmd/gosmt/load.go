package main

import (
	"crypto/sha256"
	"encoding/hex"
	"encoding/json"
	"fmt"
	"os"
	"path/filepath"
	"sort"
	"strings"
	"time"

	"golang.org/x/tools/go/packages"
	"golang.org/x/tools/go/ssa"
	"golang.org/x/tools/go/ssa/ssautil"
)

type HarnessSpec struct {
	Func    string                    `json:"func"`
	Mode    string                    `json:"mode"` // seq | conc
	Props   []string                  `json:"props"`
	Params  map[string]map[string]int `json:"params"`  // tier -> name -> value
	Limits  map[string]LimitSpec      `json:"limits"`  // tier -> limits
	Solvers []string                  `json:"solvers"` // z3, z3-new, cvc5, cvc5-int
	Tiers   []string                  `json:"tiers"`   // tiers in which it runs (default both)
	Note    string                    `json:"note"`
	Bounds  map[string]string         `json:"bounds"` // tier -> human-readable bound statement
	Covers  []string                  `json:"covers"` // reachability witnesses that must be hit (vacuity guard)

	Workers       int                 `json:"workers"`
	PropTiers     map[string][]string `json:"prop_tiers"`     // property -> tiers in which this harness serves it (default: all)
	ExpectRace    bool                `json:"expect_race"`    // sensitivity witness of the race detector: must report a race
	NoConcordance bool                `json:"no_concordance"` // harness is not meaningful natively (e.g. uses verifExpire)
}

type LimitSpec struct {
	MaxPaths   int     `json:"max_paths"`
	MaxSteps   int     `json:"max_steps"`
	MaxSeconds float64 `json:"max_seconds"`
	QueryMS    int     `json:"query_ms"`
}

type Registry struct {
	Harnesses map[string]*HarnessSpec `json:"harnesses"`
	Props     map[string]PropSpec     `json:"properties"`
}

type PropSpec struct {
	Assumptions []string `json:"assumptions"`
	Trusted     []string `json:"trusted_base"`
	Outside     string   `json:"outside"`
}

type KnownFinding struct {
	Property   string `json:"property"`
	Obligation string `json:"obligation"`
	Harness    string `json:"harness"`
	What       string `json:"what"`
	Status     string `json:"status"` // known | fixed
	Commit     string `json:"commit,omitempty"`
}

var (
	verifDir = envOr("VERIF_DIR", "/verif")
	repoDir  = envOr("VERIF_REPO", "/repo")
)

func envOr(k, d string) string {
	if v := os.Getenv(k); v != "" {
		return v
	}
	return d
}

func loadRegistry() (*Registry, error) {
	b, err := os.ReadFile(filepath.Join(verifDir, "harness", "registry.json"))
	if err != nil {
		return nil, err
	}
	var r Registry
	if err := json.Unmarshal(b, &r); err != nil {
		return nil, fmt.Errorf("registry.json: %v", err)
	}
	return &r, nil
}

func loadKnown() ([]KnownFinding, error) {
	b, err := os.ReadFile(filepath.Join(verifDir, "known_findings.json"))
	if err != nil {
		if os.IsNotExist(err) {
			return nil, nil
		}
		return nil, err
	}
	var k []KnownFinding
	if err := json.Unmarshal(b, &k); err != nil {
		return nil, fmt.Errorf("known_findings.json: %v", err)
	}
	return k, nil
}

type Loaded struct {
	PPkg     *packages.Package
	Prog     *ssa.Program
	Pkg      *ssa.Package
	LoadSecs float64
	SrcHash  map[string]string // repo file -> sha256
	Dropped  map[string]string // harness file (base name) that does not compile against the current tree -> first error
}

// droppedHarness: harness files left out of this process's overlays because they
// do not type-check against the current tree (a unit they are anchored in was
// renamed or re-shaped). Their harnesses are reported as inconclusive; the
// others still run, so that a violation they find is still reported.
var droppedHarness = map[string]string{}

func harnessFiles() ([]string, error) {
	ents, err := os.ReadDir(filepath.Join(verifDir, "harness"))
	if err != nil {
		return nil, err
	}
	var out []string
	for _, e := range ents {
		if !e.IsDir() && strings.HasSuffix(e.Name(), ".go") {
			if _, gone := droppedHarness[e.Name()]; gone {
				continue
			}
			out = append(out, filepath.Join(verifDir, "harness", e.Name()))
		}
	}
	sort.Strings(out)
	return out, nil
}

// load builds SSA for /repo's current working tree with the harness files
// overlaid into the package (nothing is written into /repo).
func load() (*Loaded, error) {
	for {
		l, bad, err := loadOnce()
		if err == nil {
			l.Dropped = droppedHarness
			return l, nil
		}
		if len(bad) == 0 {
			return nil, err
		}
		for f, e := range bad {
			droppedHarness[f] = e
		}
	}
}

// loadOnce returns, on type errors that lie in harness files only, those files
// (so that the load can be repeated without them).
func loadOnce() (*Loaded, map[string]string, error) {
	l, bad, err := loadOnce1()
	return l, bad, err
}

func loadOnce1() (*Loaded, map[string]string, error) {
	t0 := time.Now()
	files, err := harnessFiles()
	if err != nil {
		return nil, nil, err
	}
	overlay := map[string][]byte{}
	for _, f := range files {
		b, err := os.ReadFile(f)
		if err != nil {
			return nil, nil, err
		}
		overlay[filepath.Join(repoDir, filepath.Base(f))] = b
	}
	env := os.Environ()
	env = append(env, "GOFLAGS=-mod=mod", "GOPROXY=off")
	cfg := &packages.Config{Mode: packages.LoadAllSyntax, Dir: repoDir, Overlay: overlay, Env: env}
	pkgs, err := packages.Load(cfg, ".")
	if err != nil {
		return nil, nil, err
	}
	nerr := 0
	bad := map[string]string{}
	other := false
	packages.Visit(pkgs, nil, func(p *packages.Package) {
		for _, e := range p.Errors {
			fmt.Fprintf(os.Stderr, "load error: %v\n", e)
			nerr++
			file := e.Pos
			if i := strings.Index(file, ":"); i >= 0 {
				file = file[:i]
			}
			base := filepath.Base(file)
			if strings.HasPrefix(base, "zz_verif_") && base != "zz_verif_api.go" && filepath.Dir(file) == repoDir {
				if _, ok := bad[base]; !ok {
					bad[base] = e.Msg
				}
			} else {
				other = true
			}
		}
	})
	if nerr > 0 {
		if other {
			bad = nil
		}
		return nil, bad, fmt.Errorf("%d load errors (harness does not compile against the current tree)", nerr)
	}
	prog, spkgs := ssautil.AllPackages(pkgs, ssa.InstantiateGenerics)
	prog.Build()
	l := &Loaded{PPkg: pkgs[0], Prog: prog, Pkg: spkgs[0], SrcHash: map[string]string{}}
	ents, _ := os.ReadDir(repoDir)
	for _, e := range ents {
		if strings.HasSuffix(e.Name(), ".go") && !strings.HasSuffix(e.Name(), "_test.go") {
			b, err := os.ReadFile(filepath.Join(repoDir, e.Name()))
			if err == nil {
				h := sha256.Sum256(b)
				l.SrcHash[e.Name()] = hex.EncodeToString(h[:8])
			}
		}
	}
	l.LoadSecs = time.Since(t0).Seconds()
	return l, nil, nil
}

// loadTyped loads only the package under test with type information (for the
// native-replay instrumenter when no SSA is needed).
func loadTyped() (*packages.Package, error) {
	env := append(os.Environ(), "GOFLAGS=-mod=mod", "GOPROXY=off")
	cfg := &packages.Config{Mode: packages.NeedName | packages.NeedFiles | packages.NeedCompiledGoFiles | packages.NeedSyntax | packages.NeedTypes | packages.NeedTypesInfo | packages.NeedImports | packages.NeedDeps,
		Dir: repoDir, Env: env}
	pkgs, err := packages.Load(cfg, ".")
	if err != nil {
		return nil, err
	}
	if packages.PrintErrors(pkgs) > 0 {
		return nil, fmt.Errorf("package does not type-check")
	}
	return pkgs[0], nil
}
