// gosmt: solver-based checking of the real grpctunnel code (see /verif/DESIGN.md).
package main

import (
	"flag"
	"fmt"
	"os"
	"sort"
	"strings"

	"gosmt/smt"
	"gosmt/sx"
)

func usage() {
	fmt.Fprintln(os.Stderr, `usage:
  gosmt list
  gosmt run   --harness NAME [--tier quick|thorough] [--debug]
  gosmt check --property Cxx [--tier quick|thorough]
  gosmt replay FILE`)
	os.Exit(2)
}

func main() {
	if len(os.Args) < 2 {
		usage()
	}
	switch os.Args[1] {
	case "list":
		cmdList()
	case "run":
		cmdRun(os.Args[2:])
	case "check":
		os.Exit(cmdCheck(os.Args[2:]))
	case "replay":
		os.Exit(cmdReplay(os.Args[2:]))
	default:
		usage()
	}
}

func cmdList() {
	reg, err := loadRegistry()
	if err != nil {
		fmt.Fprintln(os.Stderr, err)
		os.Exit(2)
	}
	var names []string
	for n := range reg.Harnesses {
		names = append(names, n)
	}
	sort.Strings(names)
	for _, n := range names {
		h := reg.Harnesses[n]
		fmt.Printf("%-18s %-5s %-28s %s\n", n, h.Mode, h.Func, strings.Join(h.Props, ","))
	}
}

func backendsFor(spec *HarnessSpec, queryMS int) []smt.Backend {
	var out []smt.Backend
	names := spec.Solvers
	if len(names) == 0 {
		names = []string{"z3", "cvc5"}
	}
	for _, n := range names {
		switch n {
		case "z3":
			out = append(out, smt.Z3("z3"))
		case "z3-new":
			out = append(out, smt.Z3("z3-new"))
		case "cvc5":
			out = append(out, smt.CVC5(queryMS))
		case "cvc5-int":
			out = append(out, smt.CVC5Int(queryMS))
		}
	}
	return out
}

func limitsFor(spec *HarnessSpec, tier string) sx.Limits {
	l := sx.Limits{MaxPaths: 60000, MaxSteps: 2000000, MaxSeconds: 420, QueryMS: 30000}
	if tier == "thorough" {
		l = sx.Limits{MaxPaths: 400000, MaxSteps: 5000000, MaxSeconds: 900, QueryMS: 60000}
	}
	if s, ok := spec.Limits[tier]; ok {
		if s.MaxPaths > 0 {
			l.MaxPaths = s.MaxPaths
		}
		if s.MaxSteps > 0 {
			l.MaxSteps = s.MaxSteps
		}
		if s.MaxSeconds > 0 {
			l.MaxSeconds = s.MaxSeconds
		}
		if s.QueryMS > 0 {
			l.QueryMS = s.QueryMS
		}
	}
	return l
}

func runHarness(ld *Loaded, name string, spec *HarnessSpec, tier string, debug bool, known map[string]string) (*sx.Result, error) {
	return runHarnessOpt(ld, name, spec, tier, debug, 0, 0)
}

func runHarnessOpt(ld *Loaded, name string, spec *HarnessSpec, tier string, debug bool, seed, concN int) (*sx.Result, error) {
	fn := ld.Pkg.Func(spec.Func)
	if fn == nil {
		for f, e := range ld.Dropped {
			return nil, fmt.Errorf("harness function %s is unavailable: harness file %s does not compile against the current tree (%s)", spec.Func, f, e)
		}
		return nil, fmt.Errorf("harness function %s not found in package", spec.Func)
	}
	lim := limitsFor(spec, tier)
	params := map[string]int{}
	for k, v := range spec.Params["quick"] {
		params[k] = v
	}
	if tier == "thorough" {
		for k, v := range spec.Params["thorough"] {
			params[k] = v
		}
	}
	mk := func() (*sx.Explorer, error) {
		ex, err := sx.NewExplorer(ld.Prog, ld.Pkg, fn, lim, params, backendsFor(spec, lim.QueryMS)...)
		if err != nil {
			return nil, err
		}
		ex.Debug = debug
		ex.Seed = seed
		ex.ConcN = concN
		ex.Race = wantRace(spec)
		if spec.Mode == "conc" {
			ex.Mode = "conc"
			ex.Preempt = params["preemptions"]
		}
		if p := os.Getenv("GOSMT_SMTLOG"); p != "" {
			ex.S.SetLog(p + "." + name + ".smt2")
		}
		return ex, nil
	}
	workers := spec.Workers
	if workers == 0 {
		workers = 16
	}
	if debug {
		workers = 1
	}
	res, err := sx.ExploreParallel(mk, workers, globalTokens, lim)
	if err != nil {
		return nil, err
	}
	res.Harness = name
	if len(res.Concordance) > concN {
		res.Concordance = res.Concordance[:concN]
	}
	return res, nil
}

var globalTokens = sx.NewTokens(16)

// raceCheckProp: the property being checked ("" for `gosmt run`). Happens-before
// race detection is an obligation of C15 only; it runs in the harnesses that
// serve C15 when C15 is the property checked (and in `gosmt run` of such a harness).
var raceCheckProp = ""

func wantRace(spec *HarnessSpec) bool {
	if os.Getenv("GOSMT_RACE") != "" {
		return true
	}
	if os.Getenv("GOSMT_NORACE") != "" {
		return false
	}
	if raceCheckProp != "" && raceCheckProp != "C15" {
		return false
	}
	for _, p := range spec.Props {
		if p == "C15" {
			return true
		}
	}
	return false
}

func printResult(res *sx.Result) {
	fmt.Printf("== %s: paths=%d exhausted=%v steps=%d queries=%d (sat %d, unsat %d, unknown %d, errors %d) solver=%.1fs wall=%.1fs terms=%d\n",
		res.Harness, res.Paths, res.Exhausted, res.Steps, res.Stats.Queries, res.Stats.Sat, res.Stats.Unsat, res.Stats.Unknown, res.Stats.Errors, res.Stats.Seconds, res.Seconds, res.Terms)
	var why []string
	for k, v := range res.PathsEnded {
		why = append(why, fmt.Sprintf("%s=%d", k, v))
	}
	sort.Strings(why)
	fmt.Printf("   path ends: %s\n", strings.Join(why, " "))
	var ids []string
	for id := range res.Obligations {
		ids = append(ids, id)
	}
	sort.Strings(ids)
	for _, id := range ids {
		o := res.Obligations[id]
		fmt.Printf("   ob %-34s reached=%d concrete=%d unsat=%d VIOLATED=%d unknown=%d %.1fs %s\n", id, o.Reached, o.Concrete, o.Discharged, o.Violated, o.Unknown, o.Seconds, o.Pos)
	}
	var cs []string
	for id := range res.CoverDecl {
		cs = append(cs, fmt.Sprintf("%s=%d", id, res.Covers[id]))
	}
	sort.Strings(cs)
	if len(cs) > 0 {
		fmt.Printf("   covers: %s\n", strings.Join(cs, " "))
	}
	for _, v := range res.Violations {
		fmt.Printf("   VIOL %s at %s: %s\n", v.Obligation, v.Pos, v.Msg)
		for _, in := range v.Inputs {
			if in.Kind == "Bytes" || in.Kind == "String" {
				fmt.Printf("        %s = %q\n", in.Tag, string(in.Bytes))
			} else {
				fmt.Printf("        %s = %d (%#x)\n", in.Tag, in.Value, in.Value)
			}
		}
	}
	for _, s := range res.Inconclusive {
		fmt.Printf("   INCONCLUSIVE: %s\n", s)
	}
}

func cmdRun(args []string) {
	fs := flag.NewFlagSet("run", flag.ExitOnError)
	harness := fs.String("harness", "", "harness name(s), comma separated")
	tier := fs.String("tier", "quick", "quick|thorough")
	debug := fs.Bool("debug", false, "debug output")
	conc := fs.Int("conc", -1, "development: run the harness in conc mode with this delay bound")
	fs.Parse(args)
	reg, err := loadRegistry()
	if err != nil {
		fmt.Fprintln(os.Stderr, err)
		os.Exit(2)
	}
	ld, err := load()
	if err != nil {
		fmt.Fprintln(os.Stderr, err)
		os.Exit(2)
	}
	fmt.Printf("loaded in %.1fs\n", ld.LoadSecs)
	for _, n := range strings.Split(*harness, ",") {
		spec := reg.Harnesses[n]
		if spec == nil {
			fmt.Fprintf(os.Stderr, "no harness %s\n", n)
			os.Exit(2)
		}
		if *conc >= 0 {
			cp := *spec
			cp.Mode = "conc"
			cp.Params = map[string]map[string]int{"quick": {}, "thorough": {}}
			for t, ps := range spec.Params {
				for k, v := range ps {
					cp.Params[t][k] = v
				}
			}
			cp.Params["quick"]["preemptions"] = *conc
			cp.Params["thorough"]["preemptions"] = *conc
			spec = &cp
		}
		res, err := runHarness(ld, n, spec, *tier, *debug, nil)
		if err != nil {
			fmt.Fprintln(os.Stderr, err)
			os.Exit(2)
		}
		printResult(res)
	}
}
