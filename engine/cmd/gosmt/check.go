package main

import (
	"bufio"
	"bytes"
	"encoding/json"
	"flag"
	"fmt"
	"os"
	"os/exec"
	"path/filepath"
	"regexp"
	"sort"
	"strconv"
	"strings"
	"sync"
	"time"

	"gosmt/instr"
	"gosmt/sx"

	"golang.org/x/tools/go/packages"
)

type ReplayRec struct {
	Property   string            `json:"property"`
	Obligation string            `json:"obligation"`
	Harness    string            `json:"harness"`
	Func       string            `json:"func"`
	Tier       string            `json:"tier"`
	Params     map[string]int    `json:"params"`
	Inputs     []sx.NondetRec    `json:"inputs"`
	Observed   []sx.ObsRec       `json:"observed,omitempty"`
	Schedule   []int             `json:"schedule,omitempty"`
	Mode       string            `json:"mode,omitempty"`
	Expect     string            `json:"expect"`
	Msg        string            `json:"msg,omitempty"`
	Pos        string            `json:"pos,omitempty"`
	SrcHash    map[string]string `json:"src_hash,omitempty"`
}

type replayOutcome struct {
	Kind   string // OK FAILED PANIC HANG DIVERGED ERROR MISSING
	Detail string
}

// runNative runs the given replay files through the natively compiled
// harnesses (go test -overlay) and returns the outcome per file.
// instrumented writes yield-instrumented copies of the package's own source
// files into dir and returns the overlay entries for them.
var instrCache = map[string][]byte{} // the syntax trees are rewritten in place: do it once per process

func instrumented(pp *packages.Package, dir string) (map[string]string, error) {
	out := map[string]string{}
	in := &instr.Instrumenter{Fset: pp.Fset, Info: pp.TypesInfo}
	for i, f := range pp.Syntax {
		name := pp.CompiledGoFiles[i]
		base := filepath.Base(name)
		if strings.HasPrefix(base, "zz_verif") || strings.HasSuffix(base, "_test.go") || filepath.Dir(name) != repoDir {
			continue
		}
		src, ok := instrCache[name]
		if !ok {
			var err error
			src, err = in.File(f)
			if err != nil {
				return nil, err
			}
			instrCache[name] = src
		}
		dst := filepath.Join(dir, "instr_"+base)
		if err := os.WriteFile(dst, src, 0o644); err != nil {
			return nil, err
		}
		out[name] = dst
	}
	return out, nil
}

func isRaceOb(id string) bool { return strings.HasPrefix(id, "C15.RACE@") }

// runNative replays the given records natively. Records of the race obligation
// are replayed differently (runNativeRace): uninstrumented sources, no schedule
// player (its hand-offs would order every pair of threads and hide the race from
// the detector), `go test -race`.
func runNative(reg *Registry, files []string, pp *packages.Package) (map[string]replayOutcome, error) {
	var plain, race []string
	for _, f := range files {
		var rec ReplayRec
		if b, err := os.ReadFile(f); err == nil {
			_ = json.Unmarshal(b, &rec)
		}
		if isRaceOb(rec.Obligation) {
			race = append(race, f)
		} else {
			plain = append(plain, f)
		}
	}
	out, err := runNativeMode(reg, plain, pp, false)
	if err != nil {
		return out, err
	}
	for _, f := range race {
		o, err := runNativeMode(reg, []string{f}, pp, true)
		if err != nil {
			return out, err
		}
		out[f] = o[f]
	}
	return out, nil
}

// nativeParallel: replay processes run side by side (they are timing sensitive: keep well below the core count).
func nativeParallel() int {
	if s := os.Getenv("VERIF_NATIVE_PARALLEL"); s != "" {
		if n, err := strconv.Atoi(s); err == nil && n > 0 {
			return n
		}
	}
	return 4
}

var raceLineRe = regexp.MustCompile(`([A-Za-z0-9_]+\.go):(\d+)`)

func runNativeMode(reg *Registry, files []string, pp *packages.Package, race bool) (map[string]replayOutcome, error) {
	out := map[string]replayOutcome{}
	if len(files) == 0 {
		return out, nil
	}
	raceOrig := ""
	tmp, err := os.MkdirTemp("", "gosmt-replay-")
	if err != nil {
		return nil, err
	}
	defer os.RemoveAll(tmp)
	hfiles, err := harnessFiles()
	if err != nil {
		return nil, err
	}
	repl := map[string]string{}
	overlaid := pp != nil
	if pp == nil {
		pp, err = loadTyped()
		if err != nil {
			return nil, fmt.Errorf("instrumenting for replay: %v", err)
		}
	}
	if !race {
		ins, err := instrumented(pp, tmp)
		if err != nil {
			return nil, fmt.Errorf("instrumenting for replay: %v", err)
		}
		for k, v := range ins {
			repl[k] = v
		}
	} else {
		// free-running copies of the records (no schedule), each harness run several times
		var free []string
		for i, f := range files {
			var rec ReplayRec
			b, err := os.ReadFile(f)
			if err != nil {
				return nil, err
			}
			_ = json.Unmarshal(b, &rec)
			rec.Schedule = nil
			nb, _ := json.Marshal(rec)
			p := filepath.Join(tmp, fmt.Sprintf("race-%d.json", i))
			os.WriteFile(p, nb, 0o644)
			for k := 0; k < 8; k++ {
				free = append(free, p)
			}
		}
		raceOrig = files[0]
		files = free
	}
	for _, f := range hfiles {
		base := filepath.Base(f)
		if base == "zz_verif_api.go" {
			repl[filepath.Join(repoDir, base)] = filepath.Join(verifDir, "harness", "native", "zz_verif_api.go")
		} else {
			repl[filepath.Join(repoDir, base)] = f
		}
	}
	var sb strings.Builder
	sb.WriteString("package grpctunnel\n\nimport (\n\t\"os\"\n\t\"strings\"\n\t\"testing\"\n)\n\nfunc TestVerifReplay(t *testing.T) {\n\tfuncs := map[string]func(){\n")
	seen := map[string]bool{}
	var names []string
	for _, h := range reg.Harnesses {
		if !seen[h.Func] {
			seen[h.Func] = true
			if overlaid && len(droppedHarness) > 0 && pp.Types != nil && pp.Types.Scope().Lookup(h.Func) == nil {
				continue // its harness file does not compile against the current tree
			}
			names = append(names, h.Func)
		}
	}
	sort.Strings(names)
	for _, n := range names {
		fmt.Fprintf(&sb, "\t\t%q: %s,\n", n, n)
	}
	sb.WriteString("\t}\n\tfor _, p := range strings.Split(os.Getenv(\"VERIF_REPLAY_FILES\"), \":\") {\n\t\tif p != \"\" {\n\t\t\tverifReplayOne(p, funcs)\n\t\t}\n\t}\n}\n")
	testFile := filepath.Join(tmp, "zz_verif_replay_test.go")
	if err := os.WriteFile(testFile, []byte(sb.String()), 0o644); err != nil {
		return nil, err
	}
	repl[filepath.Join(repoDir, "zz_verif_replay_test.go")] = testFile
	ov, _ := json.Marshal(map[string]interface{}{"Replace": repl})
	ovPath := filepath.Join(tmp, "overlay.json")
	if err := os.WriteFile(ovPath, ov, 0o644); err != nil {
		return nil, err
	}
	var buf bytes.Buffer
	var runErr error
	if race {
		goArgs := []string{"test", "-vet=off", "-count=1", "-v", "-run", "^TestVerifReplay$", "-overlay", ovPath, "-timeout", "600s", "-race", "."}
		cmd := exec.Command("go", goArgs...)
		cmd.Dir = repoDir
		cmd.Env = append(os.Environ(), "GOFLAGS=-mod=mod", "GOPROXY=off", "VERIF_REPLAY_FILES="+strings.Join(files, ":"))
		cmd.Stdout = &buf
		cmd.Stderr = &buf
		runErr = cmd.Run()
	} else {
		// compile the test binary once, then one process per record (a few at a time): goroutines a
		// replay leaves behind can then never disturb the next one, and a crash costs one record
		bin := filepath.Join(tmp, "replay.test")
		cmd := exec.Command("go", "test", "-c", "-vet=off", "-overlay", ovPath, "-o", bin, ".")
		cmd.Dir = repoDir
		cmd.Env = append(os.Environ(), "GOFLAGS=-mod=mod", "GOPROXY=off")
		if outb, err := cmd.CombinedOutput(); err != nil {
			tail := string(outb)
			if len(tail) > 1500 {
				tail = tail[len(tail)-1500:]
			}
			for _, f := range files {
				out[f] = replayOutcome{Kind: "MISSING", Detail: fmt.Sprintf("native build failed (%v): %s", err, strings.ReplaceAll(tail, "\n", " | "))}
			}
			return out, nil
		}
		outs := make([][]byte, len(files))
		sem := make(chan struct{}, nativeParallel())
		var wg sync.WaitGroup
		for i, f := range files {
			wg.Add(1)
			sem <- struct{}{}
			go func(i int, f string) {
				defer wg.Done()
				defer func() { <-sem }()
				c := exec.Command(bin, "-test.run", "^TestVerifReplay$", "-test.v", "-test.timeout", "120s")
				c.Dir = repoDir
				c.Env = append(os.Environ(), "VERIF_REPLAY_FILES="+f)
				b, _ := c.CombinedOutput()
				outs[i] = b
			}(i, f)
		}
		wg.Wait()
		for _, b := range outs {
			buf.Write(b)
			buf.WriteByte('\n')
		}
	}
	if os.Getenv("GOSMT_NATIVE_LOG") != "" {
		os.WriteFile(os.Getenv("GOSMT_NATIVE_LOG"), buf.Bytes(), 0o644)
	}
	if race {
		// one record per call: any DATA RACE report in the output belongs to it
		text := buf.String()
		kind, detail := "OK", ""
		if strings.Contains(text, "WARNING: DATA RACE") {
			kind = "RACE"
			seen := map[string]bool{}
			var locs []string
			for _, ln := range strings.Split(text, "\n") {
				if !strings.Contains(ln, repoDir+"/") || strings.Contains(ln, "zz_verif") {
					continue
				}
				if mm := raceLineRe.FindStringSubmatch(ln); mm != nil && !seen[mm[0]] {
					seen[mm[0]] = true
					locs = append(locs, mm[0])
				}
			}
			detail = strings.Join(locs, " ")
		} else if !strings.Contains(text, "VERIF-REPLAY ") {
			tail := text
			if len(tail) > 1500 {
				tail = tail[len(tail)-1500:]
			}
			kind, detail = "MISSING", fmt.Sprintf("no outcome line (go test -race: %v): %s", runErr, strings.ReplaceAll(tail, "\n", " | "))
		}
		// files was replaced by the free-running copies; report under the original name
		return map[string]replayOutcome{raceOrig: {Kind: kind, Detail: detail}}, nil
	}
	sc := bufio.NewScanner(&buf)
	sc.Buffer(make([]byte, 1<<20), 1<<24)
	var all []string
	for sc.Scan() {
		line := sc.Text()
		all = append(all, line)
		if !strings.HasPrefix(line, "VERIF-REPLAY ") {
			continue
		}
		rest := strings.TrimPrefix(line, "VERIF-REPLAY ")
		i := strings.Index(rest, ": ")
		if i < 0 {
			continue
		}
		path, res := rest[:i], rest[i+2:]
		kind, detail, _ := strings.Cut(res, " ")
		out[path] = replayOutcome{Kind: kind, Detail: detail}
	}
	for _, f := range files {
		if _, ok := out[f]; !ok {
			tail := all
			if len(tail) > 30 {
				tail = tail[len(tail)-30:]
			}
			out[f] = replayOutcome{Kind: "MISSING", Detail: fmt.Sprintf("no outcome line (go test: %v): %s", runErr, strings.Join(tail, " | "))}
		}
	}
	return out, nil
}

func cmdReplay(args []string) int {
	if len(args) < 1 {
		usage()
	}
	reg, err := loadRegistry()
	if err != nil {
		fmt.Fprintln(os.Stderr, err)
		return 2
	}
	var files []string
	for _, a := range args {
		p, _ := filepath.Abs(a)
		files = append(files, p)
	}
	res, err := runNative(reg, files, nil)
	if err != nil {
		fmt.Fprintln(os.Stderr, err)
		return 2
	}
	code := 0
	for _, f := range files {
		r := res[f]
		fmt.Printf("%s: %s %s\n", f, r.Kind, r.Detail)
		var rec ReplayRec
		if b, err := os.ReadFile(f); err == nil {
			_ = json.Unmarshal(b, &rec)
		}
		if rec.Expect == "fail" && reproduces(rec, r) {
			fmt.Printf("VIOLATION property=%s replay=%s\n", rec.Property, f)
			code = 1
		}
	}
	return code
}

func reproduces(rec ReplayRec, r replayOutcome) bool {
	switch {
	case isRaceOb(rec.Obligation):
		// the Go race detector must report a race that involves one of the two accesses
		if r.Kind != "RACE" {
			return false
		}
		for _, part := range strings.Split(strings.TrimPrefix(rec.Obligation, "C15.RACE@"), "~") {
			if i := strings.Index(part, "("); i > 0 && strings.Contains(" "+r.Detail+" ", " "+part[:i]+" ") {
				return true
			}
		}
		return false
	case rec.Obligation == "PANIC":
		return r.Kind == "PANIC"
	case rec.Obligation == "DEADLOCK":
		return r.Kind == "HANG"
	default:
		return r.Kind == "FAILED" && r.Detail == rec.Obligation
	}
}

// obligationProps extracts the property ids from an obligation id of the
// form "C01+C13.shape".
func obligationProps(id string) []string {
	head, _, ok := strings.Cut(id, ".")
	if !ok {
		return nil
	}
	return strings.Split(head, "+")
}

func relevant(id string, prop string, spec *HarnessSpec) bool {
	if id == "PANIC" || id == "DEADLOCK" {
		return true
	}
	if id == "ALLOC" {
		// memory an input can make the package allocate: C09 (no peer input can bloat an endpoint), C06
		return prop == "C09" || prop == "C06"
	}
	for _, p := range obligationProps(id) {
		if p == prop {
			return true
		}
	}
	return false
}

type harnessRun struct {
	skipped bool
	name string
	spec *HarnessSpec
	res  *sx.Result
	err  error
}

func cmdCheck(args []string) int {
	fs := flag.NewFlagSet("check", flag.ExitOnError)
	prop := fs.String("property", "", "property id")
	tier := fs.String("tier", envOr("VERIF_TIER", "quick"), "quick|thorough")
	workers := fs.Int("workers", 14, "harnesses run in parallel")
	only := fs.String("only", "", "restrict to these harnesses (comma separated; development)")
	fs.Parse(args)
	if *prop == "" {
		usage()
	}
	raceCheckProp = *prop
	seed := 0
	if s := os.Getenv("VERIF_SEED"); s != "" {
		seed, _ = strconv.Atoi(s)
	}
	t0 := time.Now()
	fail := func(msg string) int {
		fmt.Printf("INCONCLUSIVE property=%s: %s\n", *prop, msg)
		return 2
	}
	reg, err := loadRegistry()
	if err != nil {
		return fail(err.Error())
	}
	known, err := loadKnown()
	if err != nil {
		return fail(err.Error())
	}
	ld, err := load()
	if err != nil {
		return fail("loading /repo with the harness overlay failed: " + err.Error())
	}
	var runs []*harnessRun
	var names []string
	for n := range reg.Harnesses {
		names = append(names, n)
	}
	sort.Strings(names)
	for _, n := range names {
		h := reg.Harnesses[n]
		serves := false
		for _, p := range h.Props {
			if p == *prop {
				serves = true
			}
		}
		if !serves {
			continue
		}
		if len(h.Tiers) > 0 {
			ok := false
			for _, t := range h.Tiers {
				if t == *tier {
					ok = true
				}
			}
			if !ok {
				continue
			}
		}
		if pt, ok := h.PropTiers[*prop]; ok {
			in := false
			for _, t := range pt {
				if t == *tier {
					in = true
				}
			}
			if !in {
				continue
			}
		}
		if *only != "" && !strings.Contains(","+*only+",", ","+n+",") {
			continue
		}
		runs = append(runs, &harnessRun{name: n, spec: h})
	}
	if len(runs) == 0 {
		return fail("no harness serves this property in tier " + *tier)
	}
	// fail-fast (seeded-change evaluation only): the first harness that finds a violation ends the others
	failFast := os.Getenv("VERIF_FAIL_FAST") != ""
	sem := make(chan struct{}, *workers)
	var wg sync.WaitGroup
	for _, r := range runs {
		wg.Add(1)
		go func(r *harnessRun) {
			defer wg.Done()
			sem <- struct{}{}
			defer func() { <-sem }()
			if failFast && sx.AbortAll.Load() {
				r.skipped = true
				return
			}
			r.res, r.err = runHarnessSeeded(ld, r.name, r.spec, *tier, seed)
			if failFast && r.err == nil && r.res != nil && len(r.res.Violations) > 0 {
				sx.AbortAll.Store(true)
			}
		}(r)
	}
	wg.Wait()

	// ---- verdict
	replayDir := filepath.Join(envOr("VERIF_REPLAY_DIR", filepath.Join(verifDir, "replays")), *prop)
	os.MkdirAll(replayDir, 0o755)
	inconclusive := []string{}
	var violRecs []ReplayRec
	var concRecs []ReplayRec
	knownSeen := map[string]bool{}
	knownIdx := map[string]KnownFinding{}
	for _, k := range known {
		knownIdx[k.Property+"|"+k.Harness+"|"+k.Obligation] = k
	}
	totalPaths, totalQueries := 0, 0
	obTotal, obReached := 0, 0
	for _, r := range runs {
		if r.skipped {
			inconclusive = append(inconclusive, r.name+": not run (fail-fast mode)")
			continue
		}
		if r.err != nil {
			inconclusive = append(inconclusive, r.name+": "+r.err.Error())
			continue
		}
		res := r.res
		totalPaths += res.Paths
		totalQueries += res.Stats.Queries
		for _, s := range res.Inconclusive {
			inconclusive = append(inconclusive, r.name+": "+s)
		}
		if !res.Exhausted && len(res.Inconclusive) == 0 {
			inconclusive = append(inconclusive, r.name+": path tree not exhausted")
		}
		// vacuity: expected covers
		for _, cv := range r.spec.Covers {
			if res.Covers[cv] == 0 {
				inconclusive = append(inconclusive, fmt.Sprintf("%s: cover witness %q was never reached (vacuous)", r.name, cv))
			}
		}
		nrel := 0
		for id, o := range res.Obligations {
			if relevant(id, *prop, r.spec) && id != "DEADLOCK" {
				if id == "PANIC" && o.Reached == 0 {
					continue
				}
				obTotal++
				if o.Reached > 0 {
					nrel++
					obReached++
				}
			}
		}
		if nrel == 0 {
			// the harness contributes only its implicit obligations (no panic, no deadlock on any explored path)
			if res.Paths == 0 {
				inconclusive = append(inconclusive, r.name+": no obligation of "+*prop+" was reached (vacuous)")
			} else {
				fmt.Printf("  note: %s contributes only its implicit obligations (no panic / no deadlock on %d paths) to %s\n", r.name, res.Paths, *prop)
			}
		}
		if r.spec.ExpectRace {
			// the twin that must come back violated: otherwise the detector is blind
			found := false
			for _, v := range res.Violations {
				if isRaceOb(v.Obligation) {
					found = true
				}
			}
			if !found {
				inconclusive = append(inconclusive, r.name+": the race detector did not report the seeded unsynchronised access (detector blind)")
			}
			continue
		}
		raceRecs := map[string]bool{}
		for _, v := range res.Violations {
			if !relevant(v.Obligation, *prop, r.spec) {
				continue
			}
			if isRaceOb(v.Obligation) {
				// every worker reports a racing pair once; one native confirmation per pair, six pairs per harness
				if raceRecs[v.Obligation] || len(raceRecs) >= 6 {
					continue
				}
				raceRecs[v.Obligation] = true
			}
			key := *prop + "|" + r.name + "|" + v.Obligation
			if k, ok := knownIdx[key]; ok && k.Status == "known" {
				if !knownSeen[key] {
					knownSeen[key] = true
					fmt.Printf("KNOWN-FINDING: property=%s %s [%s %s]\n", *prop, k.What, r.name, v.Obligation)
				}
				continue
			}
			violRecs = append(violRecs, ReplayRec{Property: *prop, Obligation: v.Obligation, Harness: r.name, Func: r.spec.Func,
				Tier: *tier, Params: paramsFor(r.spec, *tier), Inputs: v.Inputs, Expect: "fail", Msg: v.Msg, Pos: v.Pos, SrcHash: ld.SrcHash,
				Schedule: v.Schedule, Mode: r.spec.Mode})
		}
		for _, cr := range res.Concordance {
			concRecs = append(concRecs, ReplayRec{Property: *prop, Obligation: "concordance", Harness: r.name, Func: r.spec.Func,
				Tier: *tier, Params: paramsFor(r.spec, *tier), Inputs: cr.Inputs, Observed: cr.Observed, Expect: "pass", Schedule: cr.Schedule, Mode: r.spec.Mode})
		}
	}

	// ---- native replays: violations (must reproduce) and concordance samples (must agree)
	var files []string
	write := func(recs []ReplayRec, prefix string) []string {
		var fl []string
		for i, rec := range recs {
			b, _ := json.MarshalIndent(rec, "", " ")
			p := filepath.Join(replayDir, fmt.Sprintf("%s-%s-%s-%d.json", prefix, sanitize(rec.Harness), sanitize(rec.Obligation), i))
			os.WriteFile(p, b, 0o644)
			fl = append(fl, p)
		}
		return fl
	}
	// clean old replay files of this property
	if ents, err := os.ReadDir(replayDir); err == nil {
		for _, e := range ents {
			os.Remove(filepath.Join(replayDir, e.Name()))
		}
	}
	vfiles := write(violRecs, "viol")
	cfiles := write(concRecs, "conc")
	files = append(files, vfiles...)
	files = append(files, cfiles...)
	validated := 0
	violations := 0
	var violLines []string
	if len(files) > 0 {
		outc, err := runNative(reg, files, ld.PPkg)
		// native runs involve real goroutines and timing heuristics: anything that
		// does not come out as predicted is run again (twice at most) before it counts
		for retry := 0; err == nil && retry < 2; retry++ {
			var again []string
			for i, f := range vfiles {
				if !reproduces(violRecs[i], outc[f]) {
					again = append(again, f)
				}
			}
			for i, f := range cfiles {
				o := outc[f]
				ok := o.Kind == "OK"
				if ok {
					var got []sx.ObsRec
					_ = json.Unmarshal([]byte(o.Detail), &got)
					ok = sameObs(got, concRecs[i].Observed)
				}
				if !ok {
					again = append(again, f)
				}
			}
			if len(again) == 0 {
				break
			}
			out2, err2 := runNative(reg, again, ld.PPkg)
			if err2 != nil {
				break
			}
			for f, o := range out2 {
				outc[f] = o
			}
		}
		if err != nil {
			inconclusive = append(inconclusive, "native replay could not run: "+err.Error())
		} else {
			for i, f := range vfiles {
				o := outc[f]
				if reproduces(violRecs[i], o) {
					violations++
					violLines = append(violLines, fmt.Sprintf("VIOLATION property=%s replay=%s", *prop, f))
					fmt.Printf("  violated: %s in %s at %s: %s\n", violRecs[i].Obligation, violRecs[i].Harness, violRecs[i].Pos, describeInputs(violRecs[i].Inputs))
				} else {
					inconclusive = append(inconclusive, fmt.Sprintf("counterexample for %s (%s) did not reproduce natively: %s %s (encoding or stub problem; see %s)",
						violRecs[i].Obligation, violRecs[i].Harness, o.Kind, trunc(o.Detail, 300), f))
				}
			}
			for i, f := range cfiles {
				o := outc[f]
				if o.Kind != "OK" {
					inconclusive = append(inconclusive, fmt.Sprintf("concordance replay of %s disagrees with the encoding: %s %s (see %s)", concRecs[i].Harness, o.Kind, trunc(o.Detail, 300), f))
					continue
				}
				var got []sx.ObsRec
				_ = json.Unmarshal([]byte(o.Detail), &got)
				if !sameObs(got, concRecs[i].Observed) {
					inconclusive = append(inconclusive, fmt.Sprintf("concordance replay of %s: observables differ: native %v, predicted %v (see %s)", concRecs[i].Harness, got, concRecs[i].Observed, f))
					continue
				}
				validated++
				os.Remove(f)
			}
		}
	}

	wall := time.Since(t0).Seconds()
	writeEvidence(*prop, *tier, seed, reg, ld, runs, violations, validated, inconclusive, wall, knownSeen)

	for _, r := range runs {
		if r.res != nil {
			fmt.Printf("  %-16s paths=%-6d queries=%-6d solver=%.1fs wall=%.1fs exhausted=%v\n", r.name, r.res.Paths, r.res.Stats.Queries, r.res.Stats.Seconds, r.res.Seconds, r.res.Exhausted)
		}
	}
	fmt.Printf("property=%s tier=%s harnesses=%d paths=%d queries=%d obligations=%d/%d reached concordance=%d wall=%.1fs\n",
		*prop, *tier, len(runs), totalPaths, totalQueries, obReached, obTotal, validated, wall)
	for _, l := range violLines {
		fmt.Println(l)
	}
	if violations > 0 {
		return 1
	}
	if len(inconclusive) > 0 {
		for _, s := range inconclusive {
			fmt.Printf("INCONCLUSIVE property=%s: %s\n", *prop, s)
		}
		return 2
	}
	fmt.Printf("OK property=%s held within the stated bounds\n", *prop)
	return 0
}

func sameObs(a, b []sx.ObsRec) bool {
	if len(a) != len(b) {
		return false
	}
	for i := range a {
		if a[i] != b[i] {
			return false
		}
	}
	return true
}

func trunc(s string, n int) string {
	if len(s) > n {
		return s[:n] + "…"
	}
	return s
}

func sanitize(s string) string {
	var sb strings.Builder
	for _, ch := range s {
		if ch >= 'a' && ch <= 'z' || ch >= 'A' && ch <= 'Z' || ch >= '0' && ch <= '9' || ch == '-' || ch == '_' {
			sb.WriteRune(ch)
		} else {
			sb.WriteRune('_')
		}
	}
	return sb.String()
}

func describeInputs(in []sx.NondetRec) string {
	var parts []string
	for _, r := range in {
		if r.Kind == "Bytes" || r.Kind == "String" {
			parts = append(parts, fmt.Sprintf("%s=%q", r.Tag, string(r.Bytes)))
		} else {
			parts = append(parts, fmt.Sprintf("%s=%d", r.Tag, r.Value))
		}
		if len(parts) > 24 {
			parts = append(parts, "…")
			break
		}
	}
	return strings.Join(parts, " ")
}

func paramsFor(spec *HarnessSpec, tier string) map[string]int {
	params := map[string]int{}
	for k, v := range spec.Params["quick"] {
		params[k] = v
	}
	if tier == "thorough" {
		for k, v := range spec.Params["thorough"] {
			params[k] = v
		}
	}
	return params
}

func runHarnessSeeded(ld *Loaded, name string, spec *HarnessSpec, tier string, seed int) (*sx.Result, error) {
	return runHarnessOpt(ld, name, spec, tier, false, seed, concordanceN(spec, tier))
}

func concordanceN(spec *HarnessSpec, tier string) int {
	if spec.NoConcordance {
		return 0
	}
	if s := os.Getenv("VERIF_CONC_N"); s != "" {
		// development: stress the native replay with many sampled paths
		if n, err := strconv.Atoi(s); err == nil {
			return n
		}
	}
	if tier == "thorough" {
		return 12
	}
	return 4
}
