#!/bin/sh
# usage: mutant.sh <worktree> <patch> <prop> [prop...]   -- evaluates one seeded change on a scratch worktree (never /repo)
wt=$1; patch=$2; shift 2
git -C $wt checkout -q -- . && git -C $wt checkout -q --detach main 2>/dev/null
if ! git -C $wt apply $patch; then echo "RESULT $patch APPLY-FAILED"; exit 0; fi
( cd $wt && GOFLAGS=-mod=mod GOPROXY=off go build ./... ) || { echo "RESULT $patch BUILD-FAILED"; git -C $wt checkout -q -- .; exit 0; }
for p in "$@"; do
  out=$(VERIF_REPO=$wt VERIF_EVIDENCE_DIR=/tmp/mut/evidence VERIF_REPLAY_DIR=/tmp/mut/replays/$(basename $(dirname $patch))-$(basename $wt) ${GOSMT:-/verif/bin/gosmt} check --property $p --tier ${TIER:-quick} 2>&1)
  code=$?
  echo "RESULT $patch prop=$p exit=$code $(echo "$out" | grep -c '^VIOLATION') violations; $(echo "$out" | grep '^  violated' | sed 's/ at .*//' | sort -u | head -3 | tr '\n' ';') $(echo "$out" | grep '^INCONCLUSIVE' | head -2 | cut -c1-200 | tr '\n' ';')"
done
git -C $wt checkout -q -- .
