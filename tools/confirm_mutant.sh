#!/bin/sh
# usage: confirm_mutant.sh <worktree> <outdir k> <seeded id> <property>
# Confirms a seeded change in a scratch worktree (never /repo): applies on current main, builds,
# existing suite passes with it, demo fails with it and passes without. Writes /verif/seeded/<id>/.
wt=$1; src=$2; id=$3; prop=$4
export GOFLAGS=-mod=mod GOPROXY=off
log=/tmp/mut/confirm-$id.log; : > $log
git -C $wt checkout -q -- . ; rm -f $wt/zz_demo_test.go; git -C $wt checkout -q --detach main
r_apply=fail; r_build=fail; r_suite=fail; r_demo_with=unknown; r_demo_without=unknown
if git -C $wt apply $src/patch.diff 2>>$log; then r_apply=ok; fi
if [ $r_apply = ok ] && (cd $wt && go build ./... >>$log 2>&1); then r_build=ok; fi
if [ $r_build = ok ]; then
  if (cd $wt && go test -vet=off -count=1 -timeout 20m . >>$log 2>&1); then r_suite=pass; fi
  cp $src/zz_demo_test.go $wt/zz_demo_test.go
  if (cd $wt && timeout 600 go test -vet=off -count=1 -timeout 9m -run "$(grep -o 'func Test[A-Za-z0-9_]*' $src/zz_demo_test.go | sed 's/func //' | paste -sd'|')" . >>$log 2>&1); then r_demo_with=pass; else r_demo_with=fail; fi
  git -C $wt checkout -q -- .
  if (cd $wt && timeout 600 go test -vet=off -count=1 -timeout 9m -run "$(grep -o 'func Test[A-Za-z0-9_]*' $src/zz_demo_test.go | sed 's/func //' | paste -sd'|')" . >>$log 2>&1); then r_demo_without=pass; else r_demo_without=fail; fi
  rm -f $wt/zz_demo_test.go
fi
git -C $wt checkout -q -- .
echo "CONFIRM $id apply=$r_apply build=$r_build suite_with_change=$r_suite demo_with_change=$r_demo_with demo_without_change=$r_demo_without"
if [ $r_suite = pass ] && [ $r_demo_with = fail ] && [ $r_demo_without = pass ]; then
  mkdir -p /verif/seeded/$id
  cp $src/patch.diff /verif/seeded/$id/patch.diff
  cp $src/zz_demo_test.go /verif/seeded/$id/zz_demo_test.go.txt
  cp $src/README.md /verif/seeded/$id/README.md
  python3 - "$id" "$prop" "$(git -C /repo rev-parse --short HEAD)" <<'PY'
import json,sys
id,prop,head=sys.argv[1:4]
meta={"id":id,"breaks_property":prop,"base_commit":head,
 "needs_to_manifest":"see README.md (written by the independent sub-agent that produced the change)",
 "confirmed":{"applies_on_base":True,"builds":True,"existing_suite_with_change":"pass","demo_with_change":"fail","demo_without_change":"pass",
   "how":"tools/confirm_mutant.sh in a scratch git worktree of /repo (never /repo itself): git apply; go build ./...; go test -vet=off -count=1 . (unedited suite); go test -run <demo tests> with and without the patch"}}
json.dump(meta,open('/verif/seeded/%s/meta.json'%id,'w'),indent=1)
PY
fi
