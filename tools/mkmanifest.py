#!/usr/bin/env python3
"""Regenerates /verif/MANIFEST.json from harness/registry.json and the per-property table below."""
import json, sys
V='/verif'
reg=json.load(open(V+'/harness/registry.json'))
props=[json.loads(l) for l in open(V+'/properties.jsonl')]
serving={}
for n,h in sorted(reg['harnesses'].items()):
    for p in h['props']:
        serving.setdefault(p,[]).append(n)
NOTE_COMMON=("Trusted base: go/ssa + go/types (x/tools v0.29.0, go1.24.0), the gosmt engine (own code; every run replays sampled clean paths natively and fails closed on disagreement), z3 4.8.12 with cvc5 fallback. "
 "Environment contracts: sync.Mutex/RWMutex/Cond/Once/WaitGroup, sync/atomic (sequentially consistent), channels/select, fmt (opaque strings), proto.Marshal/Unmarshal/Clone (bytes attached to the message), errors.Is/As, reflect as used by Invoke, context.WithTimeout (deadline recorded, fired by the harness); context, container/list, strconv, strings, metadata, status, grpchan are executed from their real SSA bodies. "
 "The carrier stream, peers, handlers and credentials are harness doubles (reliable in-order delivery or failure). Composition: the unit obligations are composed into the end-to-end statement by the argument of DESIGN.md section 2/3, and checked directly for one RPC (S-E2E / KS-E2E: both tunnel ends real, entered through the public entry points, only the carrier stream a double) and for two RPCs of which one is stalled (S-E2E-HOL); S-SRV-CONV / S-CLI-CONV run whole frame sequences from the initial state. Nothing is claimed outside the bounds listed in the evidence file.")
TEXT={
 'C01':"Bounded symbolic execution of the real chunking senders, queue, reassembly (RecvMsg), demultiplexing loops and stub-driven call sequences: for every message length/window/failure point within the bounds the frames are exactly the message, queues are FIFO, RecvMsg returns only messages the peer sent, EOF only after a clean end.",
 'C02':"Symbolic execution of newStream (metadata + credentials), the server handler-operation sequences, the client frame step and the generated-stub call sequences: status/headers/trailers/request metadata are carried exactly, published before a reader is released, for all statuses and option sets within bounds.",
 'C03':"One-frame (plus continuation) steps of both receive loops from arbitrary valid states with monitor bystanders: a disturber's rejection/failure/cancel/overrun never touches bystanders or ends the tunnel, and the loops never block or send on their own stack.",
 'C04':"Every close path of the client channel, every exit of serve/Serve/openReverseTunnel, blocked readers/senders released on termination, RPCs after close fail; decided per unit with carrier doubles.",
 'C05':"The flow-controlled sender with window updates/cancellation injected at every synchronisation operation (SEQ) and under all thread interleavings (CONC, bounded), plus the receiver's one-step invariant: a parked sender has no credit, credit returned equals bytes consumed.",
 'C06':"Sender ledger (sent <= granted at every frame, chunk <= 16 KiB) for all lengths/windows/credits within bounds, receiver invariant RI by one step from an arbitrary state, overrun fails only that RPC in both loops.",
 'C07':"Cancellation paths: watcher goroutine, cancelStream/finishStream exactly-once under every operation order, cancel frames, late frames ignored, blocked handler reads released; races decided in the CONC harnesses within bounds.",
 'C08':"Id allocation from an arbitrary channel state (incl. exhaustion), new_stream first, server acceptance rules for any id, dispatch to exactly the named handler for every method string within bounds.",
 'C09':"Panic obligations (index, slice, nil, map, close, type assertion) on every feasible path of every harness whose input is a peer frame, the documented outcome per violation class from arbitrary valid states (one frame + continuation), and whole conversations of arbitrary frames from the initial state of either end decided against a reference model of the id rules (S-SRV-CONV, S-CLI-CONV).",
 'C10':"createStream with the shutdown bit (refusal recorded as a spent id, bystanders untouched), ReverseTunnelServer state machine Stop/GracefulStop/addInstance with Serve doubles, and end to end (S-E2E group 4): graceful shutdown initiated while a streaming RPC is in flight leaves its outcome exactly what it is without shutdown, a later RPC is refused with Unavailable without reaching a handler, the tunnel stays up. Known finding F10 (GracefulStop does not return when the in-flight RPCs have finished) is reported as KNOWN-FINDING.",
 'C11':"The settings exchange for every first frame / revision list within bounds, negotiate headers on all four entry points reached, flow-control components chosen per revision.",
 'C12':"Registry operations by one step from an arbitrary valid registry (invariant RR), per-key routing, round robin, and one full run of openReverseTunnel inspected at its two quiescent states.",
 'C13':"A protocol monitor over the carrier doubles of every harness: envelope/continuation shape, headers once and first, one close frame last, half-close/cancel at most once, no data after half-close, settings iff negotiated with id -1.",
 'C14':"Post-conditions of every harness: table entries removed, registry entries removed, every goroutine the library started has exited when the harness quiesces.",
 'C15':"Delay-bounded exploration of schedules (scheduler choices are decision variables of the symbolic executor; scheduling points before every synchronisation operation of the package and after every releasing one) for the K-* thread sets and the conc twins (KS-*) of the sequential harnesses, incl. one RPC through a whole tunnel with both ends real (KS-E2E): no panic, no deadlock, no lock leak, no publication-order violation on any explored schedule; plus happens-before data-race detection (vector clocks over exactly the Go memory model's synchronisation edges, FastTrack-style per-cell checks) on every explored path of every harness that serves C15, a report counting only after go test -race reproduces it natively.",
 'C16':"RecvMsg look-ahead for non-streaming request/response over every queue script within bounds, second SendMsg refused on non-streaming sides, Invoke with 0/1/2 responses.",
 'C17':"Handler/caller contexts built by the real createStream/allocateStream/Serve carry tunnel metadata, carrier values and request metadata; accessor results are private copies under every single mutation.",
 'C18':"Differential check of timeoutFromHeaders (incl. strconv) against the gRPC wire specification for every header value up to the length bound, and createStream turning exactly that duration into the handler deadline.",
}
checks=[]
na=[]
for p in props:
    pid=p['id']
    hs=serving.get(pid,[])
    if not hs:
        na.append({"property_id":pid,"reason":"no harness built yet"})
        continue
    checks.append({
      "property_id":pid,
      "quick_cmd":"./check.sh %s quick"%pid,
      "thorough_cmd":"./check.sh %s thorough"%pid,
      "evidence_file":"/verif/evidence/%s.json"%pid,
      "replay_cmd_template":"bin/gosmt replay {path}",
      "engine":"gosmt",
      "level_claimed":{"category":"model_checking","text":TEXT[pid]+" Bounded: a pass means the solver found no counterexample for any input/choice within the stated bounds (evidence lists them per harness); not a proof.","design_ref":"DESIGN.md section 3 (%s), section 9"%pid},
      "level_note":NOTE_COMMON+" Harnesses: "+", ".join(hs)+".",
      "technique":"bounded symbolic execution of the real code's go/ssa with SMT (z3 / cvc5) deciding every path condition and obligation; schedules (delay-bounded) and inputs are decision variables; counterexamples replayed natively before being reported"
    })
m={"version":1,
 "setup_cmd":"cd /verif/engine && GOFLAGS=-mod=mod GOPROXY=off go build -o /verif/bin/gosmt ./cmd/gosmt",
 "hooks":{"guard":"verif","enable":"no source hooks: harnesses are overlaid into the package (go/packages Overlay for the symbolic engine, go test -overlay for native replay)","baseline_off_cmd":"cd /repo && GOFLAGS=-mod=mod go test -vet=off -count=1 -timeout 25m ./...","source_commits":[],"add_only":True},
 "engines":[{"name":"gosmt","path":"/verif/engine","serves_properties":[c['property_id'] for c in checks],"kind_free_text":"own symbolic executor for go/ssa (Go), SMT-LIB2 to z3/cvc5, path exploration by re-execution, 16 parallel workers, native replay via go test -overlay"}],
 "checks":checks,
 "notes":"See DESIGN.md. Exit codes of the checks: 0 held within bounds (KNOWN-FINDING lines allowed), 1 VIOLATION (reproduced natively), 2 inconclusive (budget, unknown, harness does not compile against the tree, vacuous, concordance disagreement).",
 "not_applicable":na}
json.dump(m,open(V+'/MANIFEST.json','w'),indent=1)
print(len(checks),'checks;',len(na),'n/a')
