#!/bin/sh
# usage: reconfirm_mutant.sh <worktree> <seeded id>   -- re-checks a stored seeded change on the current HEAD (nothing is rewritten)
wt=$1; id=$2; d=/verif/seeded/$id
export GOFLAGS=-mod=mod GOPROXY=off
git -C $wt reset -q --hard; git -C $wt clean -fdq; git -C $wt checkout -q --detach main
tests=$(grep -o 'func Test[A-Za-z0-9_]*' $d/zz_demo_test.go.txt | sed 's/func //' | paste -sd'|')
a=fail; b=fail; s=fail; w=unknown; wo=unknown
if git -C $wt apply $d/patch.diff 2>/dev/null; then a=ok; fi
if [ $a = ok ] && (cd $wt && go build ./... >/dev/null 2>&1); then b=ok; fi
if [ $b = ok ]; then
  if (cd $wt && go test -vet=off -count=1 -timeout 20m . >/dev/null 2>&1); then s=pass; fi
  cp $d/zz_demo_test.go.txt $wt/zz_demo_test.go
  if (cd $wt && timeout 600 go test -vet=off -count=1 -timeout 9m -run "$tests" . >/dev/null 2>&1); then w=pass; else w=fail; fi
  git -C $wt checkout -q -- .
  if (cd $wt && timeout 600 go test -vet=off -count=1 -timeout 9m -run "$tests" . >/dev/null 2>&1); then wo=pass; else wo=fail; fi
  rm -f $wt/zz_demo_test.go
fi
git -C $wt reset -q --hard
echo "RECONFIRM $id apply=$a build=$b suite_with_change=$s demo_with_change=$w demo_without_change=$wo"
