#!/usr/bin/env python3
"""Regenerates the generated tables of DESIGN.md (harness catalogue, seeded changes)."""
import json,os,re
V='/verif'
s=open(V+'/DESIGN.md').read()
reg=json.load(open(V+'/harness/registry.json'))
rows=["| harness | entry | mode | properties served | registered quick bound |","|---|---|---|---|---|"]
for n,h in sorted(reg['harnesses'].items()):
    rows.append("| %s | `%s` | %s | %s | %s |"%(n,h['func'],h['mode'],", ".join(h['props']),h.get('bounds',{}).get('quick','').replace('|','/')))
s=re.sub(r'<!-- HARNESS-TABLE-BEGIN -->.*?<!-- HARNESS-TABLE-END -->','<!-- HARNESS-TABLE-BEGIN -->\n'+"\n".join(rows)+'\n<!-- HARNESS-TABLE-END -->',s,flags=re.S)
res={}
if os.path.exists(V+'/seeded/RESULTS.json'):
    res=json.load(open(V+'/seeded/RESULTS.json'))
rows=["| seeded change | property | what it needs to manifest (short) | caught by (quick check of that property) |","|---|---|---|---|"]
for d in sorted(os.listdir(V+'/seeded')):
    mp=V+'/seeded/'+d+'/meta.json'
    if not os.path.exists(mp): continue
    m=json.load(open(mp))
    r=res.get(d,{})
    rows.append("| %s | %s | %s | %s |"%(d,m['breaks_property'],m.get('short','see README.md').replace('|','/'),r.get('caught_by','(not run yet)').replace('|','/')))
s=re.sub(r'<!-- SEEDED-TABLE-BEGIN -->.*?<!-- SEEDED-TABLE-END -->','<!-- SEEDED-TABLE-BEGIN -->\n'+"\n".join(rows)+'\n<!-- SEEDED-TABLE-END -->',s,flags=re.S)
open(V+'/DESIGN.md','w').write(s)
