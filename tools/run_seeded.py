#!/usr/bin/env python3
"""Runs every seeded change in /verif/seeded against the quick check of the property it breaks,
on a scratch git worktree of /repo (never /repo itself), and records which obligations catch it."""
import json,os,subprocess,sys,re,shutil
V=os.path.dirname(os.path.dirname(os.path.abspath(__file__))); WT='/tmp/seedrun-wt'
only=sys.argv[1:]
VC=subprocess.run(['git','-C',V,'rev-parse','--short','HEAD'],capture_output=True,text=True).stdout.strip()
subprocess.run(['git','-C','/repo','worktree','remove','--force',WT],stderr=subprocess.DEVNULL)
subprocess.check_call(['git','-C','/repo','worktree','add','-q','--detach',WT,'HEAD'])
resp=V+'/seeded/RESULTS.json'
res=json.load(open(resp)) if os.path.exists(resp) else {}
try:
    for d in sorted(os.listdir(V+'/seeded')):
        mp=V+'/seeded/'+d+'/meta.json'
        if not os.path.exists(mp) or (only and d not in only) or (not only and d in res and res[d].get('exit')==1): continue
        m=json.load(open(mp)); prop=m['breaks_property']
        subprocess.check_call(['git','-C',WT,'checkout','-q','--','.'])
        if subprocess.run(['git','-C',WT,'apply',V+'/seeded/'+d+'/patch.diff']).returncode!=0:
            res[d]={'exit':None,'caught_by':'PATCH DOES NOT APPLY ON CURRENT HEAD'}; continue
        env=dict(os.environ,VERIF_FAIL_FAST='1',VERIF_DIR=V,VERIF_REPO=WT,VERIF_EVIDENCE_DIR='/tmp/seedrun-evidence',VERIF_REPLAY_DIR='/tmp/seedrun-replays/'+d)
        p=subprocess.run([V+'/bin/gosmt','check','--property',prop,'--tier','quick'],env=env,capture_output=True,text=True)
        if p.returncode==2:
            # nothing reproduced in fail-fast mode: the full check decides
            env.pop('VERIF_FAIL_FAST')
            p=subprocess.run([V+'/bin/gosmt','check','--property',prop,'--tier','quick'],env=env,capture_output=True,text=True)
        obs=sorted(set(re.findall(r'^  violated: (\S+) in (\S+)',p.stdout,flags=re.M)))
        caught=', '.join('`%s` (%s)'%(o,h) for o,h in obs) if p.returncode==1 else ('NOT CAUGHT (exit %d)'%p.returncode)
        if p.returncode==2:
            inc=re.findall(r'^INCONCLUSIVE.*',p.stdout,flags=re.M)
            caught='inconclusive: '+(inc[0][:160] if inc else '')
        res[d]={'exit':p.returncode,'caught_by':caught,'violations':len(re.findall(r'^VIOLATION',p.stdout,flags=re.M)),'verif_commit':VC}
        print(d,prop,res[d]['exit'],caught[:140],flush=True)
        json.dump(res,open(resp,'w'),indent=1)
finally:
    subprocess.run(['git','-C','/repo','worktree','remove','--force',WT])
    shutil.rmtree('/tmp/seedrun-replays',ignore_errors=True); shutil.rmtree('/tmp/seedrun-evidence',ignore_errors=True)
