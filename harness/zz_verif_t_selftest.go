package grpctunnel

import "google.golang.org/grpc/metadata"

// verifT_RaceSelfTest is the sensitivity witness of the happens-before race
// detector (the analogue of a reachability twin whose assert(false) must come
// back violated): two goroutines append to one metadata.MD without any
// synchronisation. The C15 check requires this harness to report a data race;
// if it does not, the detector is blind and the check is inconclusive.
func verifT_RaceSelfTest() {
	md := metadata.MD{}
	verifGo("a", func() { md.Append("a", "1") })
	verifGo("b", func() { md.Append("b", "2") })
	verifDrain()
}

// verifT_RaceSelfTestOrdered is its negative twin: the same two appends ordered by
// a channel hand-off, a mutex, and a WaitGroup; the detector must stay silent.
func verifT_RaceSelfTestOrdered() {
	md := metadata.MD{}
	s := newReverseChannels() // any library object with a mutex: its lock orders the two writers below
	ch := make(chan struct{})
	verifGo("a", func() {
		s.mu.Lock()
		md.Append("a", "1")
		s.mu.Unlock()
		close(ch)
	})
	verifGo("b", func() {
		<-ch
		s.mu.Lock()
		md.Append("b", "2")
		s.mu.Unlock()
	})
	verifDrain()
}
