package grpctunnel

import (
	"context"
	"errors"
	"io"

	"google.golang.org/grpc"
	"google.golang.org/grpc/codes"
	"google.golang.org/grpc/metadata"
	"google.golang.org/grpc/status"
	"google.golang.org/protobuf/types/known/emptypb"
	"google.golang.org/protobuf/types/known/wrapperspb"

	"github.com/jhump/grpctunnel/tunnelpb"
)

// S-CLOSE-CLI (C04 C14): closing a client channel, for any cause, from an
// arbitrary valid state with up to N live streams; once or twice; and what a
// new RPC sees afterwards.
func verifH_CloseChannel() {
	car := vNewCliCarrier(context.Background())
	c := vNewCliChannel(car, 9, true)
	tornDown := 0
	c.tearDown = func(*tunnelChannel) { tornDown++ }
	n := verifChoice("streams", verifParam("streams")+1)
	var bys []*vCliBystander
	for i := 0; i < n; i++ {
		bys = append(bys, vAddCliStream(c, int64(i+1)))
	}
	var cause error
	other := errors.New("carrier broke")
	switch verifChoice("cause", 3) {
	case 1:
		cause = io.EOF
	case 2:
		cause = other
	}
	first := c.close(cause)
	verifAssert(first, "C04.first-close-wins")
	verifAssert(tornDown == 1, "C04+C12.teardown-runs")
	verifAssert(c.finished, "C04.channel-marked-finished")
	verifAssert(!vChanOpenRO(c.Done()), "C04.done-closed")
	for _, b := range bys {
		verifAssert(b.ctx.Err() != nil, "C04.every-in-flight-rpc-context-cancelled")
	}
	verifAssert(len(c.streams) == 0, "C14.stream-table-dropped-with-the-channel")
	if cause == other {
		verifAssert(c.Err() == other, "C04.err-is-the-cause")
	} else {
		verifAssert(c.Err() == nil, "C04.err-nil-after-clean-close")
	}
	if verifBool("closeAgain") {
		second := c.close(errors.New("later"))
		verifAssert(!second, "C04.second-close-loses")
		if cause == other {
			verifAssert(c.Err() == other, "C04.first-cause-kept")
		} else {
			verifAssert(c.Err() == nil, "C04.first-cause-kept")
		}
	}
	// an RPC started afterwards fails immediately, nothing is sent
	str, err := c.newStream(context.Background(), true, true, "svc/m")
	verifAssert(str == nil && err != nil, "C04.rpc-after-close-fails-immediately")
	verifAssert(len(car.sent) == 0, "C04+C13.rpc-after-close-sends-nothing")
	// the watchers of the cancelled streams finish them (cancel frames are best effort)
	verifDrain()
	verifAssert(verifLiveGoroutines() == 0, "C14.close-no-goroutine-left")
	verifAssert(!verifMutexHeld(&c.mu), "C15.channel-mutex-released")
}

// ---------------------------------------------------------------------------
// the reverse-tunnel server (network client side)

type vRevClientStream struct { // grpc.BidiStreamingClient[ServerToClient, ClientToServer]
	ctx        context.Context
	hdr        metadata.MD
	hdrErr     error
	script     []*tunnelpb.ClientToServer
	pos        int
	endErr     error
	hold       bool
	hangup     chan struct{}
	closeSends int
	sent       []*tunnelpb.ServerToClient
	peerEnded  bool
	hungUp     bool
	late       []*tunnelpb.ClientToServer // frames that were already in transit when this side half-closed
	latePos    int
	slowPeer   bool // the peer does not hang up at once when this side half-closes (the harness says when)
	wrapper    *threadSafeOpenReverseTunnelClient
	sendLocked []bool // was the wrapper's send mutex held when the carrier's send side was used?
}

func (s *vRevClientStream) Header() (metadata.MD, error) { return s.hdr, s.hdrErr }
func (s *vRevClientStream) Trailer() metadata.MD         { return nil }
func (s *vRevClientStream) CloseSend() error {
	if s.wrapper != nil {
		s.sendLocked = append(s.sendLocked, verifMutexHeld(&s.wrapper.sendMu))
	}
	s.closeSends++
	if s.closeSends == 1 && s.hold && !s.slowPeer {
		s.hangUp() // half-closing makes the peer's handler return, which ends Recv
	}
	return nil
}
func (s *vRevClientStream) hangUp() {
	if !s.hungUp {
		s.hungUp = true
		close(s.hangup)
	}
}
func (s *vRevClientStream) Context() context.Context { return s.ctx }
func (s *vRevClientStream) SendMsg(m any) error      { return s.Send(m.(*tunnelpb.ServerToClient)) }
func (s *vRevClientStream) RecvMsg(m any) error      { return errors.New("not used") }
func (s *vRevClientStream) Send(m *tunnelpb.ServerToClient) error {
	if s.wrapper != nil {
		s.sendLocked = append(s.sendLocked, verifMutexHeld(&s.wrapper.sendMu))
	}
	s.sent = append(s.sent, m)
	return nil
}
func (s *vRevClientStream) Recv() (*tunnelpb.ClientToServer, error) {
	if s.pos < len(s.script) {
		s.pos++
		return s.script[s.pos-1], nil
	}
	if s.hold {
		select {
		case <-s.hangup:
			if s.latePos < len(s.late) {
				s.latePos++
				return s.late[s.latePos-1], nil
			}
			return nil, io.EOF
		case <-s.ctx.Done():
			return nil, status.FromContextError(s.ctx.Err()).Err()
		}
	}
	verifDrain()
	s.peerEnded = true
	return nil, s.endErr
}

type vStub struct {
	tunnelpb.TunnelServiceClient
	stream  *vRevClientStream
	openErr error
	gotMD   metadata.MD
	opened  int
	onOpen  func() // runs while Serve is opening its stream
}

func (s *vStub) OpenReverseTunnel(ctx context.Context, opts ...grpc.CallOption) (grpc.BidiStreamingClient[tunnelpb.ServerToClient, tunnelpb.ClientToServer], error) {
	s.opened++
	if s.onOpen != nil {
		s.onOpen()
	}
	s.gotMD, _ = metadata.FromOutgoingContext(ctx)
	if s.openErr != nil {
		return nil, s.openErr
	}
	s.stream.ctx = ctx
	return s.stream, nil
}

// S-SERVE (C04 C10 C11 C14): ReverseTunnelServer.Serve as a whole: the opener
// fails / the header fails / the server is stopping / the tunnel runs and ends
// by peer EOF, carrier error, or a tunnel-level protocol error from the peer.
// On every return after the stream was opened, the carrier must have been
// ended from this side unless the peer had ended it.
func verifH_Serve() {
	str := &vRevClientStream{hangup: make(chan struct{}), endErr: io.EOF}
	stub := &vStub{stream: str}
	hl := &vHandlerLog{}
	srv := NewReverseTunnelServer(stub)
	srv.handlers = vHandlers(hl)
	scenario := verifChoice("scenario", 8)
	negotiates := verifBool("peerNegotiates")
	if negotiates {
		str.hdr = metadata.MD{grpctunnelNegotiateKey: {grpctunnelNegotiateVal}}
	}
	carrierErr := errors.New("carrier failed")
	switch scenario {
	case 0:
		stub.openErr = errors.New("cannot open")
	case 1:
		str.hdrErr = errors.New("no header")
	case 2:
		srv.state = stateClosing
	case 3: // peer hangs up cleanly after one RPC
		str.script = []*tunnelpb.ClientToServer{{StreamId: 1, Frame: &tunnelpb.ClientToServer_NewStream{NewStream: &tunnelpb.NewStream{MethodName: "a/s", ProtocolRevision: tunnelpb.ProtocolRevision_REVISION_ONE, InitialWindowSize: 100}}}}
	case 4: // carrier error
		str.endErr = carrierErr
	case 5: // tunnel-level protocol error: a frame for a stream that was never created
		str.script = []*tunnelpb.ClientToServer{{StreamId: 7, Frame: &tunnelpb.ClientToServer_HalfClose{HalfClose: &emptypb.Empty{}}}}
		str.hold = true
	case 7: // the server is stopped while this Serve call is still opening its stream
		str.hold = true
		graceful := verifBool("gracefulStop")
		stub.onOpen = func() {
			if graceful {
				srv.GracefulStop()
			} else {
				srv.Stop()
			}
		}
	case 6: // tunnel-level protocol error: stream id reused
		str.script = []*tunnelpb.ClientToServer{
			{StreamId: 1, Frame: &tunnelpb.ClientToServer_NewStream{NewStream: &tunnelpb.NewStream{MethodName: "a/s"}}},
			{StreamId: 1, Frame: &tunnelpb.ClientToServer_NewStream{NewStream: &tunnelpb.NewStream{MethodName: "a/s"}}}}
		str.hold = true
	}
	ctx := metadata.NewOutgoingContext(context.Background(), metadata.MD{"who": {"me"}})
	started, err := srv.Serve(ctx)
	verifDrain()

	verifAssert(stub.opened == 1, "C11.serve-opens-one-stream")
	verifAssert(len(stub.gotMD[grpctunnelNegotiateKey]) == 1 && stub.gotMD[grpctunnelNegotiateKey][0] == grpctunnelNegotiateVal, "C11.opener-advertises-negotiation")
	verifAssert(len(stub.gotMD["who"]) == 1, "C17.opening-metadata-kept")
	switch scenario {
	case 0, 1:
		verifAssert(!started && err != nil, "C04.failed-open-reported")
	case 7:
		verifCover("stopped-while-opening")
		// Stop/GracefulStop returned believing nothing is being served: this call must not start serving
		verifAssert(!started && status.Code(err) == codes.Unavailable, "C04+C10.serve-that-lost-the-race-with-stop-is-refused")
	case 2:
		verifCover("refused-while-stopping")
		verifAssert(!started && status.Code(err) == codes.Unavailable, "C10.serve-refused-while-shutting-down")
	case 3:
		verifCover("clean-end")
		verifAssert(started && err == nil, "C04.peer-hangup-is-a-clean-end")
		verifAssert(len(hl.calls) == 1, "C08.rpc-served")
		if len(hl.calls) == 1 {
			tm, ok := TunnelMetadataFromIncomingContext(hl.calls[0].ctx)
			verifAssert(ok && len(tm["who"]) == 1 && tm["who"][0] == "me", "C17.reverse-handler-sees-opening-metadata")
			verifAssert(hl.calls[0].ctx.Err() != nil, "C04.handler-context-cancelled-when-tunnel-ends")
		}
	case 4:
		verifAssert(started && err == carrierErr, "C04.carrier-error-is-the-cause")
	case 5, 6:
		verifCover("protocol-error")
		verifAssert(started && err != nil, "C04+C09.protocol-error-ends-serve-with-error")
		// the stream was opened by Serve and the peer is still there: Serve must end it,
		// otherwise the network server keeps a dead tunnel registered and routes RPCs into it
		verifAssert(str.closeSends > 0 || str.ctx.Err() != nil, "C04+C12+C14.serve-ends-the-carrier-it-opened")
	}
	if scenario >= 3 && scenario <= 6 {
		// settings are emitted iff the peer negotiates, with id -1 and the local revision list
		nsettings := 0
		for i, f := range str.sent {
			if s, ok := f.Frame.(*tunnelpb.ServerToClient_Settings); ok {
				nsettings++
				verifAssert(f.StreamId == -1, "C11+C13.settings-stream-id")
				if scenario == 4 || scenario == 5 {
					// (in the other scenarios the client double starts an RPC without waiting for the
					// settings, so the handler's frames may overtake the asynchronously sent settings frame)
					verifAssert(i == 0, "C11+C13.settings-is-the-first-frame")
				}
				verifAssert(s.Settings.InitialWindowSize == initialWindowSize, "C06+C11.settings-advertise-the-enforced-window")
				verifAssert(len(s.Settings.SupportedProtocolRevisions) == 2, "C11.settings-list-local-revisions")
			}
		}
		verifAssert(nsettings == boolToInt(negotiates), "C11+C13.settings-iff-peer-negotiates")
	}
	verifAssert(verifWaitGroupCount(&srv.wg) == 0, "C04+C10.wait-group-balanced")
	verifAssert(verifLiveGoroutines() == 0, "C14.serve-no-goroutine-left")
}

// vMultiStub hands out one prepared stream double per OpenReverseTunnel call.
type vMultiStub struct {
	tunnelpb.TunnelServiceClient
	streams []*vRevClientStream
	next    int
}

func (s *vMultiStub) OpenReverseTunnel(ctx context.Context, opts ...grpc.CallOption) (grpc.BidiStreamingClient[tunnelpb.ServerToClient, tunnelpb.ClientToServer], error) {
	st := s.streams[s.next]
	s.next++
	st.ctx = ctx
	return st, nil
}

// S-RTS (C04 C10): the stop state machine of the reverse tunnel server with
// k registered instances whose Serve calls return once they are half-closed.
func verifH_StopStates() {
	k := verifChoice("instances", 3)
	var streams []*vRevClientStream
	stubs := &vMultiStub{}
	srv := NewReverseTunnelServer(stubs)
	srv.handlers = vHandlers(&vHandlerLog{})
	serveReturned := 0
	for i := 0; i < k; i++ {
		s := &vRevClientStream{hangup: make(chan struct{}), hold: true}
		streams = append(streams, s)
		stubs.streams = append(stubs.streams, s)
		verifGo("serve", func() {
			// a Serve call through the public API: returns when its stream ends
			started, _ := srv.Serve(context.Background())
			verifAssert(started, "C10.active-server-accepts-tunnels")
			serveReturned++
		})
	}
	verifDrain() // every Serve call is now parked in Recv
	stopReturned, gracefulReturned := false, false
	idleWait := false
	op := verifChoice("op", 6)
	switch op {
	case 4, 5:
		// a second call of the same operation while the first one is still waiting for the tunnels: it is
		// the same promise - it returns only once every Serve call has returned (op 4 GracefulStop, op 5 Stop
		// over tunnels whose peers take their time to react to the half-close)
		first, second := false, false
		call := srv.GracefulStop
		if op == 5 {
			call = srv.Stop
			for _, s := range streams {
				s.slowPeer = true
			}
		}
		verifGo("first", func() { call(); first = true })
		verifDrain()
		verifGo("second", func() { call(); second = true })
		verifDrain()
		if k > 0 {
			verifCover("second-call-while-waiting")
			verifAssert(!first && !second, "C04+C10.a-second-stop-or-graceful-stop-also-waits-for-every-serve")
		}
		for _, s := range streams {
			s.hangUp()
		}
		verifDrain()
		verifAssert(first && second, "C04+C10.both-calls-return-once-the-tunnels-are-gone")
		if op == 5 {
			stopReturned = true
		} else {
			gracefulReturned = true
		}
	case 3:
		// GracefulStop is waiting for in-flight tunnels (another goroutine); Stop cuts them
		verifGo("graceful", func() {
			srv.GracefulStop()
			gracefulReturned = true
		})
		verifDrain()
		if k > 0 {
			verifCover("stop-during-graceful")
			verifAssert(!gracefulReturned, "C10.graceful-stop-waits-for-live-tunnels")
		}
		srv.Stop()
		stopReturned = true
		verifDrain()
		verifAssert(gracefulReturned, "C04+C10.stop-releases-a-waiting-graceful-stop")
		for _, s := range streams {
			verifAssert(s.closeSends >= 1, "C04+C10.stop-after-graceful-stop-half-closes-every-instance")
		}
	case 0:
		srv.Stop()
		stopReturned = true
	case 1:
		verifOnBlock(func() {
			// GracefulStop waits for the in-flight tunnels; nothing was half-closed
			verifCover("graceful-waits")
			idleWait = true // no RPC is in flight on any tunnel in this harness
			verifAssert(k > 0, "C10.graceful-stop-waits-only-for-live-tunnels")
			for _, s := range streams {
				verifAssert(s.closeSends == 0, "C10.graceful-stop-does-not-cut-tunnels")
			}
			verifAssert(srv.isClosing() && !srv.isClosed(), "C10.graceful-stop-state")
			for _, s := range streams {
				s.hangUp() // the peers hang up eventually
			}
		})
		srv.GracefulStop()
		gracefulReturned = true
	case 2:
		verifOnBlock(func() {
			for _, s := range streams {
				s.hangUp()
			}
		})
		srv.GracefulStop()
		gracefulReturned = true
		srv.Stop()
		stopReturned = true
	}
	verifDrain()
	if stopReturned {
		verifCover("stopped")
		verifAssert(verifWaitGroupCount(&srv.wg) == 0, "C04+C10.stop-returns-only-after-every-serve-returned")
		if op == 0 {
			for _, s := range streams {
				verifAssert(s.closeSends >= 1, "C04.stop-half-closes-every-instance")
			}
		}
		verifAssert(srv.isClosed() && srv.isClosing(), "C10.stopped-state")
	}
	if gracefulReturned {
		verifAssert(verifWaitGroupCount(&srv.wg) == 0, "C10.graceful-stop-returns-only-after-every-serve-returned")
		verifAssert(srv.isClosing(), "C10.closing-after-graceful-stop")
	}
	// afterwards: no new tunnels, new RPCs on old tunnels refused (isClosing is what serveTunnel consults)
	stubs.streams = append(stubs.streams, &vRevClientStream{hangup: make(chan struct{}), hold: true})
	started, err := srv.Serve(context.Background())
	verifAssert(!started && status.Code(err) == codes.Unavailable, "C10.no-new-tunnels-after-shutdown")
	verifAssert(verifLiveGoroutines() == 0, "C14.stop-no-goroutine-left")
	// "GracefulStop returns once those RPCs have finished": with nothing in flight it should not have waited
	verifAssert(!idleWait, "C10.graceful-stop-returns-once-in-flight-rpcs-finished")
	_ = wrapperspb.BytesValue{}
}

// ---------------------------------------------------------------------------
// forward-tunnel entry points and the thread-safe carrier wrappers

type vFwdClientStream struct { // grpc.BidiStreamingClient[ClientToServer, ServerToClient] (network client side of a forward tunnel)
	ctx        context.Context
	hdr        metadata.MD
	hdrErr     error
	hangup     chan struct{}
	closeSends int
	sent       []*tunnelpb.ClientToServer
	wrapper    *threadSafeOpenTunnelClient
	sendLocked []bool
	recvLocked []bool
	script     []*tunnelpb.ServerToClient
	pos        int
}

func (s *vFwdClientStream) Header() (metadata.MD, error) { return s.hdr, s.hdrErr }
func (s *vFwdClientStream) Trailer() metadata.MD         { return nil }
func (s *vFwdClientStream) CloseSend() error {
	s.closeSends++
	if s.wrapper != nil {
		s.sendLocked = append(s.sendLocked, verifMutexHeld(&s.wrapper.sendMu))
	}
	return nil
}
func (s *vFwdClientStream) Context() context.Context { return s.ctx }
func (s *vFwdClientStream) SendMsg(m any) error      { return s.Send(m.(*tunnelpb.ClientToServer)) }
func (s *vFwdClientStream) RecvMsg(m any) error      { return errors.New("not used") }
func (s *vFwdClientStream) Send(m *tunnelpb.ClientToServer) error {
	if s.wrapper != nil {
		s.sendLocked = append(s.sendLocked, verifMutexHeld(&s.wrapper.sendMu))
	}
	s.sent = append(s.sent, m)
	return nil
}
func (s *vFwdClientStream) Recv() (*tunnelpb.ServerToClient, error) {
	if s.wrapper != nil {
		s.recvLocked = append(s.recvLocked, verifMutexHeld(&s.wrapper.recvMu))
	}
	if s.pos < len(s.script) {
		s.pos++
		return s.script[s.pos-1], nil
	}
	<-s.hangup
	return nil, io.EOF
}

type vFwdStub struct {
	tunnelpb.TunnelServiceClient
	stream  *vFwdClientStream
	openErr error
	gotMD   metadata.MD
}

func (s *vFwdStub) OpenTunnel(ctx context.Context, opts ...grpc.CallOption) (grpc.BidiStreamingClient[tunnelpb.ClientToServer, tunnelpb.ServerToClient], error) {
	s.gotMD, _ = metadata.FromOutgoingContext(ctx)
	if s.openErr != nil {
		return nil, s.openErr
	}
	s.stream.ctx = ctx
	return s.stream, nil
}

type vFwdServerStream struct { // grpc.BidiStreamingServer[ClientToServer, ServerToClient] (network server side of a forward tunnel)
	ctx    context.Context
	hdrs   []metadata.MD
	sent   []*tunnelpb.ServerToClient
	script []*tunnelpb.ClientToServer
	pos    int
}

func (s *vFwdServerStream) Context() context.Context    { return s.ctx }
func (s *vFwdServerStream) SetHeader(metadata.MD) error { return nil }
func (s *vFwdServerStream) SendHeader(md metadata.MD) error {
	s.hdrs = append(s.hdrs, md)
	return nil
}
func (s *vFwdServerStream) SetTrailer(metadata.MD) {}
func (s *vFwdServerStream) SendMsg(m any) error     { return s.Send(m.(*tunnelpb.ServerToClient)) }
func (s *vFwdServerStream) RecvMsg(m any) error     { return errors.New("not used") }
func (s *vFwdServerStream) Send(m *tunnelpb.ServerToClient) error {
	s.sent = append(s.sent, m)
	return nil
}
func (s *vFwdServerStream) Recv() (*tunnelpb.ClientToServer, error) {
	if s.pos < len(s.script) {
		s.pos++
		return s.script[s.pos-1], nil
	}
	verifDrain()
	return nil, io.EOF
}

// S-NEGCFG (C04 C11 C13 C15 C17): the forward-tunnel opener (PendingChannel.Start)
// and acceptor (openTunnel): negotiate headers in both directions for every
// shape of the peer's header (absent / "on" / other / several values), the
// options, Close() ending the carrier, and the thread-safe wrappers holding
// their mutex around every carrier operation.
func verifH_ForwardEntry() {
	hdrShape := verifChoice("peerHeader", 4)
	var peerHdr metadata.MD
	switch hdrShape {
	case 1:
		peerHdr = metadata.MD{grpctunnelNegotiateKey: {grpctunnelNegotiateVal}}
	case 2:
		peerHdr = metadata.MD{grpctunnelNegotiateKey: {"off"}}
	case 3:
		peerHdr = metadata.MD{grpctunnelNegotiateKey: {"nope", grpctunnelNegotiateVal}}
	}
	wantNegotiate := hdrShape == 1
	disable := verifBool("disableFlowControl")
	if verifBool("clientSide") {
		// ---- PendingChannel.Start
		str := &vFwdClientStream{hdr: peerHdr, hangup: make(chan struct{})}
		stub := &vFwdStub{stream: str}
		if wantNegotiate {
			revs := []tunnelpb.ProtocolRevision{0, 1}
			str.script = []*tunnelpb.ServerToClient{{StreamId: -1, Frame: &tunnelpb.ServerToClient_Settings{
				Settings: &tunnelpb.Settings{InitialWindowSize: initialWindowSize, SupportedProtocolRevisions: revs}}}}
		}
		var opts []TunnelOption
		if disable {
			opts = append(opts, WithDisableFlowControl())
		}
		ctx := metadata.NewOutgoingContext(context.Background(), metadata.MD{"who": {"me"}})
		tc, err := NewChannel(stub, opts...).Start(ctx)
		verifAssert(err == nil && tc != nil, "C11.start-succeeds")
		verifAssert(len(stub.gotMD[grpctunnelNegotiateKey]) == 1 && stub.gotMD[grpctunnelNegotiateKey][0] == grpctunnelNegotiateVal, "C11.fwd-opener-advertises-negotiation")
		verifAssert(len(stub.gotMD["who"]) == 1, "C17.fwd-opening-metadata-kept")
		c := tc.(*tunnelChannel)
		verifAssert(c.serverSendsSettings == wantNegotiate, "C11.fwd-peer-negotiates-iff-first-header-value-is-on")
		want := tunnelpb.ProtocolRevision_REVISION_ZERO
		if wantNegotiate && !disable {
			want = tunnelpb.ProtocolRevision_REVISION_ONE
		}
		verifAssert(c.useRevision == want, "C11.fwd-flow-control-iff-both-negotiate-and-not-disabled")
		verifAssert(len(c.tunnelMetadata["who"]) == 1, "C17.fwd-channel-records-opening-metadata")
		w, isWrapped := c.stream.(*threadSafeOpenTunnelClient)
		verifAssert(isWrapped, "C15.fwd-carrier-is-wrapped")
		if isWrapped {
			str.wrapper = w
			st, err := c.newStream(context.Background(), true, true, "svc/m")
			verifAssert(err == nil, "C08.fwd-rpc-starts")
			if err == nil {
				_ = st.CloseSend()
			}
			tc.Close()
			close(str.hangup)
			verifDrain()
			verifAssert(str.closeSends >= 1, "C04.close-of-a-forward-channel-ends-the-carrier")
			for _, l := range str.sendLocked {
				verifAssert(l, "C15.every-carrier-send-under-the-send-mutex")
			}
			for _, l := range str.recvLocked {
				verifAssert(l, "C15.every-carrier-recv-under-the-recv-mutex")
			}
			verifAssert(len(str.sendLocked) >= 3, "C15.wrapper-sends-observed")
			verifAssert(!verifMutexHeld(&w.sendMu) && !verifMutexHeld(&w.recvMu), "C15.wrapper-mutexes-released")
			verifAssert(verifLiveGoroutines() == 0, "C14.forward-channel-no-goroutine-left")
		}
		return
	}
	// ---- openTunnel (the network server accepting a forward tunnel)
	ctx := context.Background()
	if peerHdr != nil {
		ctx = metadata.NewIncomingContext(ctx, peerHdr)
	}
	str := &vFwdServerStream{ctx: ctx}
	h := NewTunnelServiceHandler(TunnelServiceHandlerOptions{DisableFlowControl: disable})
	hl := &vHandlerLog{}
	if verifBool("servicesRegistered") {
		h.handlers = vHandlers(hl)
		str.script = []*tunnelpb.ClientToServer{{StreamId: 1, Frame: &tunnelpb.ClientToServer_NewStream{NewStream: &tunnelpb.NewStream{MethodName: "a/s", ProtocolRevision: tunnelpb.ProtocolRevision_REVISION_ZERO}}}}
	}
	if verifBool("shuttingDown") {
		h.InitiateShutdown()
	}
	err := h.openTunnel(str)
	verifDrain()
	if len(h.handlers) == 0 {
		verifCover("no-services")
		verifAssert(status.Code(err) == codes.Unimplemented, "C11.forward-tunnel-unsupported-without-services")
		return
	}
	verifAssert(err == nil, "C04.forward-serve-ends-cleanly-on-eof")
	verifAssert(len(str.hdrs) == 1 && len(str.hdrs[0][grpctunnelNegotiateKey]) == 1 && str.hdrs[0][grpctunnelNegotiateKey][0] == grpctunnelNegotiateVal, "C11.fwd-acceptor-advertises-negotiation")
	nsettings := 0
	for _, f := range str.sent {
		if s, ok := f.Frame.(*tunnelpb.ServerToClient_Settings); ok {
			nsettings++
			verifAssert(f.StreamId == -1, "C11+C13.fwd-settings-stream-id")
			wantRevs := 2
			if disable {
				wantRevs = 1
			}
			verifAssert(len(s.Settings.SupportedProtocolRevisions) == wantRevs, "C11.fwd-settings-list-reflects-disable-option")
		}
	}
	verifAssert(nsettings == boolToInt(wantNegotiate), "C11+C13.fwd-settings-iff-peer-negotiates")
	if h.stopping.Load() {
		verifCover("fwd-shutting-down")
		verifAssert(len(hl.calls) == 0, "C10.initiate-shutdown-refuses-new-rpcs")
		refused := false
		for _, f := range str.sent {
			if code, isClose := vCloseCode(f); isClose && f.StreamId == 1 {
				refused = code == codes.Unavailable
			}
		}
		verifAssert(refused, "C10.initiate-shutdown-refusal-is-unavailable")
	} else {
		verifAssert(len(hl.calls) == 1, "C08.fwd-rpc-dispatched")
	}
}

// S-STOP-INFLIGHT (C04 C10 C15): Stop (optionally after GracefulStop) while a
// Serve call is running and a new_stream frame is already in transit: Stop must
// return (after Serve has), and the late RPC must be refused, not dispatched.
func verifH_StopInFlight() {
	str := &vRevClientStream{hangup: make(chan struct{}), hold: true}
	str.late = []*tunnelpb.ClientToServer{{StreamId: 1, Frame: &tunnelpb.ClientToServer_NewStream{
		NewStream: &tunnelpb.NewStream{MethodName: "a/s", ProtocolRevision: tunnelpb.ProtocolRevision_REVISION_ONE, InitialWindowSize: 10}}}}
	stub := &vStub{stream: str}
	hl := &vHandlerLog{}
	srv := NewReverseTunnelServer(stub)
	srv.handlers = vHandlers(hl)
	var serveErr error
	served, started := false, false
	verifGo("serve", func() {
		started, serveErr = srv.Serve(context.Background())
		served = true
	})
	verifDrain() // Serve is now parked in Recv
	// a gRPC stream's send side (Send, CloseSend) must not be used from two goroutines at once: everything the
	// server does to the carrier - Stop's CloseSend included - goes through the wrapper that serialises it
	for k := range srv.instances {
		w, ok := k.(*threadSafeOpenReverseTunnelClient)
		verifAssert(ok, "C15.stop-reaches-the-carrier-only-through-its-thread-safe-wrapper")
		if ok {
			str.wrapper = w
		}
	}
	graceful := verifBool("gracefulFirst")
	if graceful {
		verifGo("graceful", func() { srv.GracefulStop() })
		verifDrain()
	}
	srv.Stop()
	// reaching this point: Stop returned (a hang is reported as DEADLOCK)
	verifAssert(served, "C04+C10.stop-returns-only-after-serve-returned")
	verifDrain()
	verifAssert(started && serveErr == nil, "C04.serve-ends-cleanly-when-stopped")
	verifAssert(len(hl.calls) == 0, "C10.rpc-arriving-after-stop-is-not-dispatched")
	verifAssert(str.closeSends >= 1, "C04.stop-half-closes-the-tunnel")
	for _, l := range str.sendLocked {
		verifAssert(l, "C15.every-use-of-the-carriers-send-side-under-the-wrappers-send-mutex")
	}
	verifAssert(verifWaitGroupCount(&srv.wg) == 0, "C04+C10.stop-wait-group-balanced")
	verifAssert(!verifMutexHeld(&srv.mu), "C15.reverse-server-mutex-released")
	verifAssert(verifLiveGoroutines() == 0, "C14.stop-in-flight-no-goroutine-left")
}
