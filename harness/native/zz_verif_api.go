package grpctunnel

// Native bodies of the harness API (replaces zz_verif_api.go for replay):
// nondeterministic inputs are read, in call order, from the replay record
// the solver produced; assertions report instead of being checked symbolically.

import (
	"google.golang.org/protobuf/proto"
	"google.golang.org/protobuf/types/known/wrapperspb"

	"bytes"
	"context"
	"encoding/json"
	"fmt"
	"os"
	"runtime"
	"strconv"
	"sync"
	"time"
)

type verifNondetRec struct {
	Tag   string `json:"tag"`
	Kind  string `json:"kind"`
	Value uint64 `json:"value"`
	Bytes []byte `json:"bytes,omitempty"`
	Len   int    `json:"len,omitempty"`
}

type verifReplayRec struct {
	Property   string           `json:"property"`
	Obligation string           `json:"obligation"`
	Harness    string           `json:"harness"`
	Func       string           `json:"func"`
	Params     map[string]int   `json:"params"`
	Inputs     []verifNondetRec `json:"inputs"`
	Observed   []verifObs       `json:"observed,omitempty"`
	Schedule   []int            `json:"schedule,omitempty"`
	Mode       string           `json:"mode,omitempty"`
	Expect     string           `json:"expect"` // "fail" (violation replay) or "pass" (concordance replay)
}

type verifObs struct {
	Tag   string `json:"tag"`
	Value uint64 `json:"value"`
}

type verifStop struct{ why string }

var verifState struct {
	mu       sync.Mutex
	rec      *verifReplayRec
	next     int
	failed   []string
	diverged string
	observed []verifObs
	mainGID  uint64
	wg       sync.WaitGroup
	baseG    int
	gen      int
	baseGIDs map[uint64]bool
	onSync   func()
	inHook   bool
	finished bool
	doneCh   chan string
}

func verifStackGID(g []byte) uint64 {
	f := bytes.Fields(g)
	if len(f) < 2 {
		return 0
	}
	id, _ := strconv.ParseUint(string(f[1]), 10, 64)
	return id
}

func verifAllGIDs() map[uint64]bool {
	buf := make([]byte, 1<<20)
	buf = buf[:runtime.Stack(buf, true)]
	out := map[uint64]bool{}
	for _, g := range bytes.Split(buf, []byte("\n\n")) {
		out[verifStackGID(g)] = true
	}
	return out
}

func verifGID() uint64 {
	var buf [64]byte
	n := runtime.Stack(buf[:], false)
	f := bytes.Fields(buf[:n])
	id, _ := strconv.ParseUint(string(f[1]), 10, 64)
	return id
}

func verifPop(tag, kind string) verifNondetRec {
	verifState.mu.Lock()
	defer verifState.mu.Unlock()
	if verifState.next >= len(verifState.rec.Inputs) {
		if verifState.diverged == "" {
			verifState.diverged = "input list exhausted at " + tag
		}
		return verifNondetRec{Tag: tag, Kind: kind}
	}
	r := verifState.rec.Inputs[verifState.next]
	verifState.next++
	if r.Tag != tag {
		if verifState.diverged == "" {
			verifState.diverged = fmt.Sprintf("input %d is %s/%s, harness asked for %s/%s", verifState.next-1, r.Tag, r.Kind, tag, kind)
		}
	}
	return r
}

func verifU8(tag string) uint8   { return uint8(verifPop(tag, "U8").Value) }
func verifU16(tag string) uint16 { return uint16(verifPop(tag, "U16").Value) }
func verifU32(tag string) uint32 { return uint32(verifPop(tag, "U32").Value) }
func verifU64(tag string) uint64 { return verifPop(tag, "U64").Value }
func verifI32(tag string) int32  { return int32(verifPop(tag, "I32").Value) }
func verifI64(tag string) int64  { return int64(verifPop(tag, "I64").Value) }
func verifInt(tag string) int    { return int(verifPop(tag, "Int").Value) }
func verifBool(tag string) bool  { return verifPop(tag, "Bool").Value != 0 }

func verifBytes(tag string, max int) []byte {
	r := verifPop(tag, "Bytes")
	b := make([]byte, r.Len)
	copy(b, r.Bytes)
	return b
}

func verifString(tag string, max int) string {
	r := verifPop(tag, "String")
	b := make([]byte, r.Len)
	copy(b, r.Bytes)
	return string(b)
}

func verifASCII(tag string, max int) string { return verifString(tag, max) }

func verifChoice(tag string, n int) int { return int(verifPop(tag, "Choice").Value) }

func verifAssume(c bool) {
	if !c {
		verifState.mu.Lock()
		if verifState.diverged == "" {
			verifState.diverged = "an assumption is false natively"
		}
		verifState.mu.Unlock()
		panic(verifStop{"diverged"})
	}
}

func verifAssert(c bool, id string) {
	if !c {
		verifState.mu.Lock()
		verifState.failed = append(verifState.failed, id)
		verifState.mu.Unlock()
		panic(verifStop{"assert " + id})
	}
}

func verifAssertBytesEq(a, b []byte, id string) { verifAssert(bytes.Equal(a, b), id) }
func verifCover(id string)                       {}

func verifParam(name string) int {
	v, ok := verifState.rec.Params[name]
	if !ok {
		panic("verifParam: " + name + " not in replay record")
	}
	return v
}

func verifGo(name string, f func()) {
	id := verifNewThread()
	verifState.wg.Add(1)
	go func() {
		defer verifState.wg.Done()
		verifThreadBegin(id)
		defer verifThreadEnd(id)
		f()
	}()
}

func verifRecoverStop() {
	if r := recover(); r != nil {
		if _, ok := r.(verifStop); ok {
			return
		}
		panic(r)
	}
}

// verifDrain: let goroutines started by the library run to quiescence.
func verifDrain() {
	verifSched.mu.Lock()
	conc := verifSched.active && !verifSched.free
	verifSched.mu.Unlock()
	if conc {
		// under a replayed schedule the harness thread waits until the player resumes it
		// (in the model verifDrain is a blocking operation, not a scheduling point)
		verifSched.mu.Lock()
		t := verifSched.byGID[verifGID()]
		if t != nil {
			t.inDrain = true
		}
		verifSched.mu.Unlock()
		if t != nil {
			verifSchedEvent()
			<-t.grant
			// threads that were released from a blocking primitive run on their
			// own: give them time to come to rest before the harness looks
			for i := 0; i < 30; i++ {
				runtime.Gosched()
				time.Sleep(time.Millisecond)
			}
			return
		}
	}
	// free-running replay: wait until every other goroutine is parked (no goroutine but this one is running
	// or runnable on two looks in a row), at least 10 ms and at most 500 ms - a fixed pause is too short on
	// a loaded machine and needlessly long on an idle one
	calm := 0
	for i := 0; i < 250 && calm < 2; i++ {
		runtime.Gosched()
		time.Sleep(2 * time.Millisecond)
		if i < 4 {
			continue
		}
		if verifOthersParked() {
			calm++
		} else {
			calm = 0
		}
	}
}

// verifOthersParked: no goroutine other than the caller is running or runnable.
func verifOthersParked() bool {
	buf := make([]byte, 1<<20)
	buf = buf[:runtime.Stack(buf, true)]
	me := verifGID()
	for _, g := range bytes.Split(buf, []byte("\n\n")) {
		if !bytes.HasPrefix(g, []byte("goroutine ")) {
			continue
		}
		if verifStackGID(g) == me {
			continue
		}
		i := bytes.IndexByte(g, '[')
		j := bytes.IndexByte(g, ']')
		if i < 0 || j < i {
			continue
		}
		st := g[i+1 : j]
		if bytes.HasPrefix(st, []byte("running")) || bytes.HasPrefix(st, []byte("runnable")) {
			return false
		}
	}
	return true
}

func verifYield()          { runtime.Gosched(); time.Sleep(time.Millisecond) }
func verifAllowBlock()     {}
func verifInlineGo(on bool) {}

// verifOnSync / verifSyncPoint: the package's own sources are compiled for
// replay with a verifSyncPoint() call before every synchronisation operation
// (engine/instr); the environment hook runs there, inline on the harness
// goroutine, exactly where the symbolic engine ran it.
func verifOnSync(f func()) {
	verifState.mu.Lock()
	verifState.onSync = f
	verifState.mu.Unlock()
}

// verifSyncAfter: the scheduling point after a releasing operation (schedule replay only).
func verifSyncAfter() { verifPark() }

func verifSyncPoint() {
	verifPark()
	verifState.mu.Lock()
	f := verifState.onSync
	busy := verifState.inHook
	verifState.mu.Unlock()
	if f == nil || busy || verifGID() != verifState.mainGID {
		return
	}
	verifState.mu.Lock()
	verifState.inHook = true
	verifState.mu.Unlock()
	defer func() {
		verifState.mu.Lock()
		verifState.inHook = false
		verifState.mu.Unlock()
	}()
	f()
}


// verifOnBlock: natively there is no scheduler to ask, so a watchdog assumes
// the harness is blocked when it has not finished 50 ms later, and runs f then
// (while the harness goroutine is parked), up to 16 times.
func verifOnBlock(f func()) {
	verifSched.mu.Lock()
	if verifSched.active && !verifSched.free {
		// under a replayed schedule the player starts the hook exactly where the
		// engine did (the schedule names a thread that does not exist yet)
		verifSched.onBlock = f
		verifSched.mu.Unlock()
		return
	}
	verifSched.mu.Unlock()
	verifState.mu.Lock()
	gen := verifState.gen
	done := verifState.doneCh
	verifState.mu.Unlock()
	go func() {
		defer func() {
			if r := recover(); r != nil {
				if s, ok := r.(verifStop); ok {
					select {
					case done <- "stop:" + s.why:
					default:
					}
					return
				}
				panic(r)
			}
		}()
		for i := 0; i < 16; i++ {
			time.Sleep(50 * time.Millisecond)
			verifState.mu.Lock()
			stale := verifState.gen != gen || verifState.finished
			verifState.mu.Unlock()
			if stale {
				return
			}
			f()
		}
	}()
}

func verifThreadID() int {
	if verifGID() == verifState.mainGID {
		return 0
	}
	return int(verifGID())
}

// verifLiveGoroutines: goroutines started by library code (not by the
// harness or the test driver) that are still alive after a settle period.
func verifLiveGoroutines() int {
	n := 0
	for try := 0; try < 5; try++ {
		verifDrain()
		buf := make([]byte, 1<<20)
		buf = buf[:runtime.Stack(buf, true)]
		n = 0
		for _, g := range bytes.Split(buf, []byte("\n\n")) {
			if verifState.baseGIDs[verifStackGID(g)] {
				continue // left over from an earlier replay in this process
			}
			i := bytes.Index(g, []byte("created by github.com/jhump/grpctunnel."))
			if i < 0 {
				continue
			}
			name := g[i+len("created by github.com/jhump/grpctunnel."):]
			name = bytes.TrimPrefix(name, []byte("(*"))
			if bytes.HasPrefix(name, []byte("verif")) || (len(name) > 1 && name[0] == 'v' && name[1] >= 'A' && name[1] <= 'Z') {
				continue
			}
			n++
			if try == 4 && os.Getenv("VERIF_DEBUG") != "" {
				fmt.Printf("LIVE GOROUTINE:\n%s\n", g)
			}
		}
		if n == 0 {
			break
		}
	}
	return n
}

func verifSpawnCount() int   { return 0 }
func verifBlockedCount() int { return 0 }

func verifTrace(msg string, vals ...any) { fmt.Println(append([]any{"TRACE", msg}, vals...)...) }

func verifDeadline(ctx context.Context) (time.Duration, bool) {
	dl, ok := ctx.Deadline()
	if !ok {
		return 0, false
	}
	return time.Until(dl), true
}

func verifExpire(ctx context.Context) bool { return false }

func verifMutexHeld(l sync.Locker) bool {
	switch m := l.(type) {
	case *sync.Mutex:
		if m.TryLock() {
			m.Unlock()
			return false
		}
		return true
	case *sync.RWMutex:
		if m.TryLock() {
			m.Unlock()
			return false
		}
		return true
	}
	return false
}

func verifWaitGroupCount(wg *sync.WaitGroup) int {
	done := make(chan struct{})
	go func() { wg.Wait(); close(done) }()
	select {
	case <-done:
		return 0
	case <-time.After(100 * time.Millisecond):
		return 1
	}
}

// verifSameDuration: exact in the symbolic engine; natively the deadline has
// already started to run down, so allow two seconds of slack.
func verifSameDuration(got, want time.Duration) bool {
	d := got - want
	if d < 0 {
		d = -d
	}
	return d < 2*time.Second
}

func verifObserve(tag string, v uint64) {
	verifState.mu.Lock()
	verifState.observed = append(verifState.observed, verifObs{tag, v})
	verifState.mu.Unlock()
}

// verifReplayOne runs harness f on one replay record and prints the outcome
// line that `gosmt replay` parses.
func verifReplayOne(path string, funcs map[string]func()) {
	b, err := os.ReadFile(path)
	if err != nil {
		fmt.Printf("VERIF-REPLAY %s: ERROR %v\n", path, err)
		return
	}
	var rec verifReplayRec
	if err := json.Unmarshal(b, &rec); err != nil {
		fmt.Printf("VERIF-REPLAY %s: ERROR %v\n", path, err)
		return
	}
	f := funcs[rec.Func]
	if f == nil {
		fmt.Printf("VERIF-REPLAY %s: ERROR no harness function %s\n", path, rec.Func)
		return
	}
	verifState.mu.Lock()
	verifState.rec = &rec
	verifState.next = 0
	verifState.failed = nil
	verifState.diverged = ""
	verifState.observed = nil
	verifState.gen++
	verifState.baseGIDs = verifAllGIDs()
	verifState.onSync = nil
	verifState.inHook = false
	verifState.finished = false
	done := make(chan string, 4)
	verifState.doneCh = done
	verifState.mu.Unlock()
	verifSchedInit(rec.Schedule)
	mainID := verifNewThread()
	if len(rec.Schedule) > 0 {
		go verifSchedLoop()
	}
	go func() {
		verifState.mainGID = verifGID()
		verifState.baseG = runtime.NumGoroutine()
		verifThreadBegin(mainID)
		defer func() {
			if r := recover(); r != nil {
				if s, ok := r.(verifStop); ok {
					done <- "stop:" + s.why
					return
				}
				buf := make([]byte, 4096)
				n := runtime.Stack(buf, false)
				done <- fmt.Sprintf("panic:%v\n%s", r, buf[:n])
				return
			}
			done <- "returned"
		}()
		f()
	}()
	var ms0 runtime.MemStats
	runtime.ReadMemStats(&ms0)
	var how string
	select {
	case how = <-done:
	case <-time.After(10 * time.Second):
		how = "hang"
	}
	verifSchedRelease()
	if rec.Obligation == "ALLOC" {
		// the engine's implicit obligation: an input makes the package allocate far beyond the
		// flow-control window (the counterexample asks for more than 64 MiB)
		var ms1 runtime.MemStats
		runtime.ReadMemStats(&ms1)
		if ms1.TotalAlloc-ms0.TotalAlloc > 32<<20 {
			verifState.mu.Lock()
			verifState.failed = append([]string{"ALLOC"}, verifState.failed...)
			verifState.mu.Unlock()
		}
	}
	verifState.mu.Lock()
	defer verifState.mu.Unlock()
	verifState.finished = true
	switch {
	case len(how) >= 6 && how[:6] == "panic:":
		fmt.Printf("VERIF-REPLAY %s: PANIC %s\n", path, how[6:])
	case how == "hang":
		fmt.Printf("VERIF-REPLAY %s: HANG\n", path)
	case len(verifState.failed) > 0:
		fmt.Printf("VERIF-REPLAY %s: FAILED %s\n", path, verifState.failed[0])
	case verifState.diverged != "":
		fmt.Printf("VERIF-REPLAY %s: DIVERGED %s\n", path, verifState.diverged)
	default:
		ob, _ := json.Marshal(verifState.observed)
		fmt.Printf("VERIF-REPLAY %s: OK %s\n", path, ob)
	}
}

func verifWire(payload []byte) []byte {
	b, err := proto.Marshal(&wrapperspb.BytesValue{Value: payload})
	if err != nil {
		panic(err)
	}
	return b
}

func verifNative() bool { return true }

// ---------------------------------------------------------------------------
// Replay of a schedule (CONC harnesses). The package's own sources are
// compiled with verifSyncPoint() before every synchronisation operation and
// every goroutine announces itself; a scheduler releases exactly one thread per
// step of the recorded schedule and waits until it reaches its next
// synchronisation point, ends, or blocks inside a primitive.

type verifThread struct {
	id      int
	grant   chan struct{}
	waiting bool // parked at a yield point, waiting for its turn
	started bool
	done    bool
	inPrim  bool // the model says its last step ended blocked inside a primitive: it resumes by itself
	inDrain bool // parked in verifDrain (the model: blocked until the others are at rest)
}

var verifSched struct {
	mu      sync.Mutex
	active  bool
	free    bool // schedule exhausted (or abandoned): everybody runs freely
	threads []*verifThread
	byGID   map[uint64]*verifThread
	event   chan struct{}
	sched   []int
	drifted string
	onBlock func()
}

func verifSchedInit(schedule []int) {
	verifSched.mu.Lock()
	defer verifSched.mu.Unlock()
	verifSched.active = len(schedule) > 0
	verifSched.free = false
	verifSched.threads = nil
	verifSched.byGID = map[uint64]*verifThread{}
	verifSched.event = make(chan struct{}, 1024)
	verifSched.sched = schedule
	verifSched.drifted = ""
	verifSched.onBlock = nil
}

func verifNewThread() int {
	verifSched.mu.Lock()
	defer verifSched.mu.Unlock()
	t := &verifThread{id: len(verifSched.threads), grant: make(chan struct{}, 1)}
	verifSched.threads = append(verifSched.threads, t)
	if os.Getenv("VERIF_DEBUG") != "" {
		_, f1, l1, _ := runtime.Caller(1)
		_, f2, l2, _ := runtime.Caller(2)
		fmt.Printf("SCHED new thread %d by gid=%d at %s:%d <- %s:%d\n", t.id, verifGID(), f1, l1, f2, l2)
	}
	return t.id
}

func verifSchedEvent() {
	select {
	case verifSched.event <- struct{}{}:
	default:
	}
}

// verifThreadBegin: a new goroutine waits for its first turn.
func verifThreadBegin(id int) {
	verifSched.mu.Lock()
	if !verifSched.active {
		verifSched.mu.Unlock()
		return
	}
	t := verifSched.threads[id]
	verifSched.byGID[verifGID()] = t
	t.started = true
	free := verifSched.free
	if !free {
		t.waiting = true
	}
	verifSched.mu.Unlock()
	if free {
		return
	}
	verifSchedEvent()
	<-t.grant
}

func verifThreadEnd(id int) {
	verifSched.mu.Lock()
	if verifSched.active {
		verifSched.threads[id].done = true
	}
	verifSched.mu.Unlock()
	verifSchedEvent()
	// an assertion failing on this goroutine ends the replay
	if r := recover(); r != nil {
		if s, ok := r.(verifStop); ok {
			verifState.mu.Lock()
			done := verifState.doneCh
			verifState.mu.Unlock()
			select {
			case done <- "stop:" + s.why:
			default:
			}
			return
		}
		// a panic on a goroutine other than the harness's: report it instead of killing the test binary
		buf := make([]byte, 4096)
		n := runtime.Stack(buf, false)
		verifState.mu.Lock()
		done := verifState.doneCh
		verifState.mu.Unlock()
		select {
		case done <- fmt.Sprintf("panic:%v\n%s", r, buf[:n]):
		default:
		}
	}
}

func verifLiveThreads() int {
	n := 0
	for _, t := range verifSched.threads {
		if !t.done {
			n++
		}
	}
	return n
}

// verifPark: the calling goroutine is at a scheduling point.
func verifPark() {
	verifSched.mu.Lock()
	if !verifSched.active || verifSched.free {
		verifSched.mu.Unlock()
		return
	}
	t := verifSched.byGID[verifGID()]
	if t == nil || verifLiveThreads() <= 1 {
		verifSched.mu.Unlock()
		return
	}
	t.waiting = true
	verifSched.mu.Unlock()
	if os.Getenv("VERIF_DEBUG") != "" {
		_, f1, l1, _ := runtime.Caller(2)
		fmt.Printf("SCHED park thread %d at %s:%d\n", t.id, f1, l1)
	}
	verifSchedEvent()
	<-t.grant
}

func verifSchedRelease() {
	verifSched.mu.Lock()
	verifSched.free = true
	for _, t := range verifSched.threads {
		if t.waiting || t.inDrain {
			t.waiting = false
			t.inDrain = false
			t.grant <- struct{}{}
		}
	}
	verifSched.mu.Unlock()
}

// verifSchedLoop plays the recorded schedule. Every entry names the thread that
// takes the step and says whether the model's step ended with the thread blocked
// inside a primitive (then the thread is not waited for, and its next entry - the
// model's "resume" step - is not a grant: natively the thread resumes by itself as
// soon as it is released, and the player only waits until it has reached its next
// scheduling point) or at a scheduling point / its end (then the player waits for
// exactly that, with a generous limit, so that a slow machine does not shift steps).
func verifSchedLoop() {
	const long = 3 * time.Second
	settle := func(t *verifThread, limit time.Duration) bool {
		deadline := time.After(limit)
		for {
			verifSched.mu.Lock()
			stop := t.waiting || t.done || t.inDrain
			verifSched.mu.Unlock()
			if stop {
				return true
			}
			select {
			case <-verifSched.event:
			case <-deadline:
				return false
			}
		}
	}
	dbg := os.Getenv("VERIF_DEBUG") != ""
	for _, ent := range verifSched.sched {
		id, endsBlocked := ent&0xffff, ent>>16 != 0
		// the thread must exist and be parked (or become so: it may still be on its way)
		var t *verifThread
		deadline := time.After(long)
	wait:
		for {
			verifSched.mu.Lock()
			if id < len(verifSched.threads) {
				t = verifSched.threads[id]
			}
			hook := verifSched.onBlock
			spawnHook := t == nil && id == len(verifSched.threads) && hook != nil
			ready := t != nil && (t.waiting || t.done || t.inDrain || t.inPrim)
			verifSched.mu.Unlock()
			if spawnHook {
				// the engine ran the terminal hook here: everything else is parked or blocked
				hid := verifNewThread()
				go func() {
					verifThreadBegin(hid)
					defer verifThreadEnd(hid)
					hook()
				}()
				continue
			}
			if ready {
				break
			}
			select {
			case <-verifSched.event:
			case <-deadline:
				break wait
			}
		}
		verifSched.mu.Lock()
		if dbg {
			st := "nil"
			if t != nil {
				st = fmt.Sprintf("waiting=%v done=%v inPrim=%v inDrain=%v", t.waiting, t.done, t.inPrim, t.inDrain)
			}
			fmt.Printf("SCHED step id=%d endsBlocked=%v threads=%d %s\n", id, endsBlocked, len(verifSched.threads), st)
		}
		if t == nil {
			// the thread the schedule names does not exist natively: the replay has drifted
			// from the model; give up steering and let everything run freely
			verifSched.drifted = "no such thread"
			verifSched.mu.Unlock()
			break
		}
		if t.done {
			verifSched.mu.Unlock()
			continue
		}
		switch {
		case t.inDrain:
			// the model resumes the harness from verifDrain
			t.inDrain = false
			t.inPrim = false
			t.grant <- struct{}{}
		case t.inPrim:
			// the model resumes a thread that was blocked in a primitive: natively it is
			// already on its way (or there); this step only waits for it
			t.inPrim = false
		case t.waiting:
			t.waiting = false
			t.grant <- struct{}{}
		default:
			// neither parked nor known to be blocked: it is still running towards its next point
		}
		verifSched.mu.Unlock()
		if endsBlocked {
			// give it a moment to get into the primitive; it will not report back
			settle(t, 20*time.Millisecond)
			verifSched.mu.Lock()
			if !t.waiting && !t.done && !t.inDrain {
				t.inPrim = true
			}
			verifSched.mu.Unlock()
			continue
		}
		if !settle(t, long) {
			// the model says the step ends at a scheduling point, natively the thread does not
			// get there: it is blocked where the model was not. The replay has left the model's
			// path: stop steering, let everything run, and let the harness' own checks speak
			verifSched.mu.Lock()
			verifSched.drifted = fmt.Sprintf("thread %d did not reach its next scheduling point", id)
			verifSched.mu.Unlock()
			break
		}
	}
	verifSchedRelease()
}
