package grpctunnel

import (
	"context"
	"errors"
	"io"

	"google.golang.org/grpc"
	"google.golang.org/grpc/codes"
	"google.golang.org/grpc/metadata"
	"google.golang.org/grpc/status"
	"google.golang.org/protobuf/types/known/wrapperspb"

	"github.com/jhump/grpctunnel/tunnelpb"
)

func vSameMD(a, b metadata.MD) bool {
	if len(a) != len(b) {
		return false
	}
	for k, va := range a {
		vb := b[k]
		if len(va) != len(vb) {
			return false
		}
		for i := range va {
			if va[i] != vb[i] {
				return false
			}
		}
	}
	return true
}

func vSomeMD(tag string) metadata.MD {
	k := []string{"ka", "kb"}[verifChoice(tag+"-key", 2)]
	// legal values of a key that does not end in "-bin": printable ASCII (anything else, and what
	// becomes of values that are not valid UTF-8: S-E2E group 5, finding F9)
	v := verifASCII(tag+"-v", 2)
	verifAssume(len(v) == 2) // (a symbolic length would fork the library's validation loop over every value)
	return metadata.MD{k: {v, "x"}}
}

func vNewSrvStream(car *vSrvCarrier, serverStreams bool) (*tunnelServer, *tunnelServerStream, *vRcvMonC2S, context.Context) {
	svr := &tunnelServer{stream: car, streams: map[int64]*tunnelServerStream{}, lastSeen: 9, tunnelOpts: &tunnelOpts{}}
	ctx, cancel := context.WithCancel(context.Background())
	rcv := &vRcvMonC2S{}
	st := &tunnelServerStream{ctx: ctx, cancel: cancel, svr: svr, streamID: 9, method: "a/s", stream: car,
		isClientStream: true, isServerStream: serverStreams, receiver: rcv}
	streamID := int64(9)
	st.sender = newSenderWithoutFlowControl(func(data []byte, totalSize uint32, first bool) error {
		if first {
			return car.Send(&tunnelpb.ServerToClient{StreamId: streamID, Frame: &tunnelpb.ServerToClient_ResponseMessage{
				ResponseMessage: &tunnelpb.MessageData{Size: totalSize, Data: data}}})
		}
		return car.Send(&tunnelpb.ServerToClient{StreamId: streamID, Frame: &tunnelpb.ServerToClient_MoreResponseData{MoreResponseData: data}})
	})
	svr.streams[9] = st
	return svr, st, rcv, ctx
}

// S-HDR-SRV (C02 C13 C14 C16): every sequence of up to N handler operations
// {SetHeader, SendHeader, SendMsg, SetTrailer} followed by the handler's
// return with nil / any status / a plain error (finishStream), possibly
// followed by a second finish (the cancel frame or the watcher racing with
// it); metadata values are symbolic.
func verifH_SrvHandlerOps() {
	car := &vSrvCarrier{ctx: context.Background(), endErr: io.EOF}
	serverStreams := verifBool("serverStreams")
	svr, st, rcv, sctx := vNewSrvStream(car, serverStreams)
	nops := verifParam("ops")
	wantHdr := metadata.MD{}
	wantTlr := metadata.MD{}
	hdrSent := false
	msgs := 0
	attempts := 0
	if verifBool("carrierBreaks") {
		// headers go out, then the carrier fails: the first response is attempted and fails
		// (scenario checked separately: the wire checks below assume delivery)
		verifAssert(st.SendHeader(nil) == nil, "C02.send-header-accepted")
		car.failSend, car.sendErr = true, errors.New("carrier broke")
		err1 := st.SendMsg(&wrapperspb.BytesValue{Value: []byte{1}})
		verifAssert(err1 != nil, "C04.send-on-a-broken-carrier-fails")
		tries := len(car.sentBy)
		err2 := st.SendMsg(&wrapperspb.BytesValue{Value: []byte{2}})
		if !serverStreams {
			verifCover("retry-after-failed-send")
			// a second send on a non-streaming side is refused, not handed to the carrier again
			verifAssert(err2 != nil && len(car.sentBy) == tries, "C16.second-send-refused-even-after-a-failed-first")
		}
		return
	}
	_ = attempts
	for i := 0; i < nops; i++ {
		switch verifChoice("op", 5) {
		case 0:
			md := vSomeMD("sethdr")
			err := st.SetHeader(md)
			if hdrSent {
				verifAssert(err != nil, "C02+C13.set-header-after-headers-refused")
			} else {
				verifAssert(err == nil, "C02.set-header-accepted")
				wantHdr = metadata.Join(wantHdr, md)
			}
		case 1:
			var md metadata.MD // nil: "send what has been set so far" - refused like any other once headers are out
			if !verifBool("sendHeaderWithoutMetadata") {
				md = vSomeMD("sendhdr")
			}
			err := st.SendHeader(md)
			if hdrSent {
				verifAssert(err != nil, "C13.second-send-header-refused")
			} else {
				verifAssert(err == nil, "C02.send-header-accepted")
				wantHdr = metadata.Join(wantHdr, md)
				hdrSent = true
			}
		case 2:
			n0 := len(car.sent)
			err := st.SendMsg(&wrapperspb.BytesValue{Value: []byte{byte(msgs)}})
			if !serverStreams && msgs >= 1 {
				verifCover("second-response-refused")
				verifAssert(err != nil, "C16.second-response-on-non-streaming-side-refused")
				verifAssert(len(car.sent) == n0 || (len(car.sent) == n0+1 && !hdrSent), "C16.refused-response-not-on-the-wire")
			} else {
				verifAssert(err == nil, "C01.response-accepted")
				msgs++
			}
			hdrSent = true
		case 3:
			md := vSomeMD("settlr")
			st.SetTrailer(md)
			wantTlr = metadata.Join(wantTlr, md)
		case 4:
			// nothing (shorter sequences)
		}
	}
	// the handler returns
	var herr error
	wantCode := codes.OK
	switch verifChoice("result", 3) {
	case 1:
		c := verifU32("code")
		verifAssume(c != 0)
		wantCode = codes.Code(c)
		herr = status.Error(wantCode, "handler says no")
	case 2:
		herr = errors.New("plain error")
		wantCode = codes.Unknown
	}
	st.finishStream(herr)
	if verifBool("finishTwice") {
		verifCover("finished-twice")
		st.SetTrailer(metadata.MD{"late": {"x"}})
		st.finishStream(context.Canceled)
	}
	verifDrain()

	// ---- the wire
	nhdr, nclose, nmsg := 0, 0, 0
	firstMsgAt, hdrAt, closeAt := -1, -1, -1
	for i, f := range car.sent {
		verifAssert(f.StreamId == 9, "C01+C13.own-stream-id-on-every-frame")
		switch fr := f.Frame.(type) {
		case *tunnelpb.ServerToClient_ResponseHeaders:
			nhdr++
			hdrAt = i
			verifAssert(vSameMD(fromProto(fr.ResponseHeaders), wantHdr), "C02.headers-are-the-join-of-what-the-handler-set")
		case *tunnelpb.ServerToClient_ResponseMessage:
			if firstMsgAt < 0 {
				firstMsgAt = i
			}
			nmsg++
		case *tunnelpb.ServerToClient_CloseStream:
			nclose++
			closeAt = i
			verifAssert(codes.Code(fr.CloseStream.Status.GetCode()) == wantCode, "C02.close-carries-the-handlers-status-code")
			if wantCode != codes.OK && wantCode != codes.Unknown {
				verifAssert(fr.CloseStream.Status.GetMessage() == "handler says no", "C02.close-carries-the-handlers-status-message")
			}
			verifAssert(vSameMD(fromProto(fr.CloseStream.ResponseTrailers), wantTlr), "C02.trailers-are-the-join-of-what-the-handler-set")
		}
	}
	verifAssert(nhdr == 1, "C02+C13.response-headers-exactly-once")
	verifAssert(nclose == 1, "C13.exactly-one-close-frame")
	verifAssert(closeAt == len(car.sent)-1, "C13.close-is-the-last-frame")
	verifAssert(hdrAt == 0, "C02+C13.headers-before-anything-else")
	verifAssert(nmsg == msgs, "C01+C13.one-message-frame-per-accepted-response")
	if firstMsgAt >= 0 {
		verifCover("message-sent")
		verifAssert(hdrAt < firstMsgAt, "C02+C13.headers-before-first-message")
	}
	// ---- what is left behind
	_, still := svr.streams[9]
	verifAssert(!still, "C14.finished-stream-leaves-table")
	verifAssert(sctx.Err() != nil, "C04+C14.handler-context-cancelled")
	verifAssert(rcv.closes == 1, "C01+C14.receiver-closed-once")
	h := st.halfClosed.Load()
	verifAssert(h != nil, "C01.half-close-marker-set-on-finish")
	verifAssert(!verifMutexHeld(&st.writeMu), "C15.write-mutex-released")
	verifAssert(verifLiveGoroutines() == 0, "C14.no-goroutine-left-after-finish")
	for _, th := range car.sentBy[len(car.sentBy)-1:] {
		verifAssert(th != 0, "C03.close-frame-sent-off-the-callers-stack")
	}
}

// S-SERVESTREAM (C04 C07 C14 C16): serveStream as a whole with unary and
// streaming descriptors; the handler double reads a request (or not), sends
// 0-2 responses and returns a value or an error; the request side delivers one
// request and a half-close, or is cut short by a cancellation / deadline.
func verifH_ServeStream() {
	car := &vSrvCarrier{ctx: context.Background(), endErr: io.EOF}
	svr, st, _, sctx := vNewSrvStream(car, true)
	st.isClientStream = false
	st.isServerStream = false
	unary := verifBool("unary")
	if !unary {
		st.isClientStream, st.isServerStream = true, true
	}
	// a real receiver so that RecvMsg works
	st.receiver = newReceiver[tunnelpb.ClientToServerFrame](func(tunnelpb.ClientToServerFrame) uint { return 1 }, func(uint32) {}, initialWindowSize)
	reqs := verifChoice("requests", 3)
	for i := 0; i < reqs; i++ {
		w := verifWire([]byte{byte(i)})
		_ = st.receiver.accept(&tunnelpb.ClientToServer_RequestMessage{RequestMessage: &tunnelpb.MessageData{Size: uint32(len(w)), Data: w}})
	}
	ending := verifChoice("ending", 3) // 0 half-close, 1 cancel frame, 2 deadline
	switch ending {
	case 0:
		st.halfClose(io.EOF)
	}
	var herr error
	wantCode := codes.OK
	if verifBool("handlerFails") {
		c := verifU32("code")
		verifAssume(c != 0)
		wantCode = codes.Code(c)
		herr = status.Error(wantCode, "no")
	}
	invoked, gotReq, recvErr := 0, 0, error(nil)
	var md any
	if unary {
		md = &grpc.MethodDesc{MethodName: "u", Handler: func(srv any, ctx context.Context, dec func(any) error, _ grpc.UnaryServerInterceptor) (any, error) {
			invoked++
			// generated code decodes the request first and returns the error if that fails
			in := &wrapperspb.BytesValue{}
			if err := dec(in); err != nil {
				recvErr = err
				return nil, err
			}
			gotReq++
			if herr != nil {
				return nil, herr
			}
			return &wrapperspb.BytesValue{Value: []byte{42}}, nil
		}}
	} else {
		md = &grpc.StreamDesc{StreamName: "s", ClientStreams: true, ServerStreams: true, Handler: func(srv any, ss grpc.ServerStream) error {
			invoked++
			for {
				in := &wrapperspb.BytesValue{}
				if err := ss.RecvMsg(in); err != nil {
					recvErr = err
					break
				}
				gotReq++
			}
			_ = ss.SendMsg(&wrapperspb.BytesValue{Value: []byte{42}})
			return herr
		}}
	}
	if ending != 0 {
		// the termination strikes while the handler is blocked in Recv
		verifOnBlock(func() {
			if ending == 1 {
				st.finishStream(context.Canceled) // what the receive loop does for a cancel frame
			} else {
				st.cancel() // the deadline fires / the tunnel goes away
			}
		})
	}
	st.serveStream(md, &vSvcImpl{"a"})
	verifDrain()

	verifAssert(invoked == 1, "C08.handler-invoked-once")
	if unary {
		// a non-streaming request: the handler body only runs with exactly one request and a clean half-close
		if gotReq == 1 {
			verifAssert(reqs == 1 && ending == 0, "C16.unary-handler-body-only-with-exactly-one-request")
		}
		if reqs == 2 && ending == 0 {
			verifCover("unary-two-requests")
			verifAssert(gotReq == 0 && status.Code(recvErr) == codes.InvalidArgument, "C16.unary-two-requests-invalid-argument")
		}
	} else if ending == 0 {
		verifAssert(recvErr == io.EOF && gotReq >= 1 || reqs == 0 && recvErr == io.EOF, "C01.stream-handler-sees-eof-after-all-requests")
	}
	if ending != 0 {
		verifCover("cut-short")
		verifAssert(recvErr != nil && recvErr != io.EOF, "C01+C04+C07.blocked-recv-returns-an-error-on-termination")
	}
	nclose := 0
	for i, f := range car.sent {
		if cs, ok := f.Frame.(*tunnelpb.ServerToClient_CloseStream); ok {
			nclose++
			if ending == 0 {
				verifAssert(i == len(car.sent)-1, "C13.close-is-the-last-frame-of-a-stream-the-handler-ended")
				if !unary || gotReq == 1 {
					verifAssert(codes.Code(cs.CloseStream.Status.GetCode()) == wantCode, "C02.status-of-handler-result")
				}
			}
		}
	}
	verifAssert(nclose == 1, "C13.exactly-one-close-frame-per-stream")
	_, still := svr.streams[9]
	verifAssert(!still, "C14.stream-leaves-table")
	verifAssert(sctx.Err() != nil, "C04+C14.handler-context-cancelled-at-the-end")
	verifAssert(verifLiveGoroutines() == 0, "C14.serve-stream-no-goroutine-left")
}

// S-SRV-BLOCKED (C03 C04 C06 C07 C09 C14): a handler blocked in SendMsg on a
// zero window, or in RecvMsg on an empty queue, while the receive loop
// processes a cancel frame / a window overrun / an unknown frame for that
// stream, or the tunnel goes away. The loop must get through (it only waits
// for locks that the cancellation releases), the blocked call must return an
// error, and the stream must be gone afterwards.
func verifH_SrvBlocked() {
	car := &vSrvCarrier{ctx: context.Background(), endErr: io.EOF}
	svr := &tunnelServer{stream: car, streams: map[int64]*tunnelServerStream{}, lastSeen: 9, tunnelOpts: &tunnelOpts{}}
	root, rootCancel := context.WithCancel(context.Background())
	ctx, cancel := context.WithCancel(root)
	st := &tunnelServerStream{ctx: ctx, cancel: cancel, svr: svr, streamID: 9, method: "a/s", stream: car,
		isClientStream: true, isServerStream: true}
	st.sender = newSender(ctx, 0, func(data []byte, totalSize uint32, first bool) error {
		return car.Send(&tunnelpb.ServerToClient{StreamId: 9, Frame: &tunnelpb.ServerToClient_MoreResponseData{MoreResponseData: data}})
	})
	st.receiver = newReceiver[tunnelpb.ClientToServerFrame](func(f tunnelpb.ClientToServerFrame) uint {
		if m, ok := f.(*tunnelpb.ClientToServer_RequestMessage); ok {
			return uint(len(m.RequestMessage.Data))
		}
		return 0
	}, func(uint32) {}, 4)
	svr.streams[9] = st
	phase := verifChoice("phase", 2)
	var herr error
	returned := false
	desc := &grpc.StreamDesc{StreamName: "s", ClientStreams: true, ServerStreams: true, Handler: func(srv any, ss grpc.ServerStream) error {
		if phase == 0 {
			herr = ss.SendMsg(&wrapperspb.BytesValue{Value: []byte{1, 2, 3}})
		} else {
			herr = ss.RecvMsg(&wrapperspb.BytesValue{})
		}
		returned = true
		return herr
	}}
	verifGo("handler", func() { st.serveStream(desc, &vSvcImpl{"a"}) })
	verifDrain()
	verifAssert(!returned, "C05.handler-is-blocked-without-credit-or-data")
	verifCover("handler-blocked")
	event := verifChoice("event", 4)
	switch event {
	case 0:
		st.acceptClientFrame(&tunnelpb.ClientToServer_Cancel{})
	case 1: // five bytes into a window of four
		st.acceptClientFrame(&tunnelpb.ClientToServer_RequestMessage{RequestMessage: &tunnelpb.MessageData{Size: 100, Data: []byte{1, 2, 3, 4, 5}}})
	case 2:
		st.acceptClientFrame(nil)
	case 3:
		rootCancel() // the tunnel is torn down / the deadline fires
	}
	// reaching this point at all: the receive loop was not wedged (a wedge is reported as DEADLOCK)
	verifDrain()
	verifAssert(returned && herr != nil, "C04+C06+C07.blocked-handler-call-returns-an-error")
	_, still := svr.streams[9]
	verifAssert(!still, "C14.blocked-stream-leaves-table")
	nclose := 0
	for _, f := range car.sent {
		if cs, ok := f.Frame.(*tunnelpb.ServerToClient_CloseStream); ok {
			nclose++
			if event == 1 {
				// whichever of the receive loop and the woken handler gets to send the close frame,
				// the RPC fails with the violation, not with the handler's consequent context error
				verifAssert(codes.Code(cs.CloseStream.Status.GetCode()) == codes.ResourceExhausted, "C06+C09.overrun-fails-that-rpc-with-resource-exhausted")
			}
		}
	}
	verifAssert(nclose == 1, "C13.blocked-stream-gets-exactly-one-close-frame")
	for _, th := range car.sentBy {
		verifAssert(th != 0, "C03.no-carrier-send-on-the-loop-stack-blocked")
	}
	verifAssert(verifLiveGoroutines() == 0, "C14.blocked-stream-no-goroutine-left")
	verifAssert(!verifMutexHeld(&st.writeMu) && !verifMutexHeld(&st.readMu) && !verifMutexHeld(&svr.mu), "C15.blocked-stream-locks-released")
}
