package grpctunnel

// Reference functions and small helpers that do not mention any identifier of the
// package under test: kept apart so that a harness file that stops compiling
// after a refactoring of /repo does not take the other harnesses with it.

import (
	"math"
	"time"
)

func vb2i(b bool) int {
	r := 0
	if b {
		r = 1
	}
	return r
}

// refTimeout is the gRPC wire specification of the grpc-timeout header:
// 1 to 8 ASCII digits followed by one unit character; the duration saturates
// at the largest representable value.
func refTimeout(s string) (wellFormed bool, d time.Duration, zero bool) {
	n := len(s)
	if n < 2 || n > 9 {
		return false, 0, false
	}
	var unit time.Duration
	switch s[n-1] {
	case 'H':
		unit = time.Hour
	case 'M':
		unit = time.Minute
	case 'S':
		unit = time.Second
	case 'm':
		unit = time.Millisecond
	case 'u':
		unit = time.Microsecond
	case 'n':
		unit = time.Nanosecond
	default:
		return false, 0, false
	}
	var v int64
	bad := 0
	for i := 0; i < n-1; i++ {
		c := s[i]
		bad |= vb2i(c < '0') | vb2i(c > '9')
		v = v*10 + int64(c-'0')
	}
	if bad != 0 {
		return false, 0, false
	}
	if v > math.MaxInt64/int64(unit) {
		return true, time.Duration(math.MaxInt64), false
	}
	return true, time.Duration(v) * unit, v == 0
}

