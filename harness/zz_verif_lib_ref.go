package grpctunnel

// Reference functions and small helpers that do not mention any identifier of the
// package under test: kept apart so that a harness file that stops compiling
// after a refactoring of /repo does not take the other harnesses with it.

import (
	"math"
	"time"
)

func vb2i(b bool) int {
	r := 0
	if b {
		r = 1
	}
	return r
}

// refTimeout is the gRPC wire specification of the grpc-timeout header:
// 1 to 8 ASCII digits followed by one unit character; the duration saturates
// at the largest representable value.
func refTimeout(s string) (wellFormed bool, d time.Duration, zero bool) {
	n := len(s)
	if n < 2 || n > 9 {
		return false, 0, false
	}
	var unit time.Duration
	switch s[n-1] {
	case 'H':
		unit = time.Hour
	case 'M':
		unit = time.Minute
	case 'S':
		unit = time.Second
	case 'm':
		unit = time.Millisecond
	case 'u':
		unit = time.Microsecond
	case 'n':
		unit = time.Nanosecond
	default:
		return false, 0, false
	}
	var v int64
	bad := 0
	for i := 0; i < n-1; i++ {
		c := s[i]
		bad |= vb2i(c < '0') | vb2i(c > '9')
		v = v*10 + int64(c-'0')
	}
	if bad != 0 {
		return false, 0, false
	}
	if v > math.MaxInt64/int64(unit) {
		return true, time.Duration(math.MaxInt64), false
	}
	return true, time.Duration(v) * unit, v == 0
}


// vValidUTF8 is the well-formedness test of RFC 3629 (what protobuf demands of a proto3 string
// field and what unicode/utf8.ValidString computes), written out so that the symbolic executor
// runs it over symbolic bytes without library tables.
func vValidUTF8(s string) bool {
	for i := 0; i < len(s); {
		b := s[i]
		switch {
		case b < 0x80:
			i++
		case b >= 0xC2 && b <= 0xDF:
			if i+1 >= len(s) || s[i+1] < 0x80 || s[i+1] > 0xBF {
				return false
			}
			i += 2
		case b >= 0xE0 && b <= 0xEF:
			if i+2 >= len(s) {
				return false
			}
			lo, hi := byte(0x80), byte(0xBF)
			if b == 0xE0 {
				lo = 0xA0
			}
			if b == 0xED {
				hi = 0x9F
			}
			if s[i+1] < lo || s[i+1] > hi || s[i+2] < 0x80 || s[i+2] > 0xBF {
				return false
			}
			i += 3
		case b >= 0xF0 && b <= 0xF4:
			if i+3 >= len(s) {
				return false
			}
			lo, hi := byte(0x80), byte(0xBF)
			if b == 0xF0 {
				lo = 0x90
			}
			if b == 0xF4 {
				hi = 0x8F
			}
			if s[i+1] < lo || s[i+1] > hi || s[i+2] < 0x80 || s[i+2] > 0xBF || s[i+3] < 0x80 || s[i+3] > 0xBF {
				return false
			}
			i += 4
		default:
			return false
		}
	}
	return true
}

// vPrintableASCII: what gRPC allows in the value of a metadata key that does not end in "-bin"
// (written without early exits so that the symbolic executor turns it into one formula).
func vPrintableASCII(s string) bool {
	ok := true
	for i := 0; i < len(s); i++ {
		c := s[i]
		if c < 0x20 {
			ok = false
		}
		if c > 0x7E {
			ok = false
		}
	}
	return ok
}
