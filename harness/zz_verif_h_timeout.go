package grpctunnel

import (
	"math"
	"time"

	"google.golang.org/grpc/metadata"
)

// S-TIMEOUT (C18): timeoutFromHeaders against the specification, for every
// header value up to maxlen bytes, absent / single / repeated headers.
func verifH_Timeout() {
	maxlen := verifParam("maxlen")
	shape := verifChoice("shape", 4)
	md := metadata.MD{}
	s := verifString("hdr", maxlen)
	switch shape {
	case 0:
		// header absent (some other key present)
		md["other"] = []string{s}
		_, ok := timeoutFromHeaders(md)
		verifAssert(!ok, "C18.absent")
		return
	case 3:
		// the key is there, its value list is empty (legal on this wire: a Metadata.Values with no val)
		md["grpc-timeout"] = []string{}
		_, ok := timeoutFromHeaders(md)
		verifAssert(!ok, "C18.present-without-a-value")
		return
	case 1:
		md["grpc-timeout"] = []string{s}
	case 2:
		// repeated header: the last value decides
		md["grpc-timeout"] = []string{verifString("first", 3), s}
	}
	d, ok := timeoutFromHeaders(md)
	wf, want, zero := refTimeout(s)
	if wf {
		verifCover("wellformed")
		// (zero included: the grammar says "positive integer", every gRPC implementation reads "0n" as a
		// zero timeout - grpc-go sends exactly that for a deadline that has already passed - and the handler
		// of such a call must find its context expired, not unbounded; Appendix B was revised on this point)
		_ = zero
		verifAssert(ok, "C18.spec-accept")
		verifAssert(d == want, "C18.spec-duration")
		if want == time.Duration(math.MaxInt64) {
			verifCover("saturated")
		}
	} else {
		verifCover("malformed")
		verifAssert(!ok, "C18.spec-malformed")
	}
}
