package grpctunnel

import (
	"context"
	"sync"
	"time"
)

// Harness API. These declarations have no bodies: the symbolic executor
// (/verif/engine) intercepts calls to them; for native replay a second file
// (native/zz_verif_native.go) supplies bodies that read a replay file.

func verifU8(tag string) uint8
func verifU16(tag string) uint16
func verifU32(tag string) uint32
func verifU64(tag string) uint64
func verifI32(tag string) int32
func verifI64(tag string) int64
func verifInt(tag string) int
func verifBool(tag string) bool

// verifBytes / verifString: symbolic length <= max, symbolic content.
func verifBytes(tag string, max int) []byte
func verifString(tag string, max int) string

// verifASCII: like verifString, every byte printable ASCII (what gRPC allows in the value of a
// metadata key that does not end in "-bin", and in any case valid UTF-8).
func verifASCII(tag string, max int) string

// verifChoice: concrete value in [0,n) explored by forking (shapes, kinds).
func verifChoice(tag string, n int) int

func verifAssume(c bool)
func verifAssert(c bool, id string)
func verifAssertBytesEq(a, b []byte, id string)
func verifCover(id string)

// verifParam: tier-dependent bound from harness/registry.json.
func verifParam(name string) int

func verifGo(name string, f func())
func verifDrain()
func verifYield()
func verifAllowBlock()
func verifInlineGo(on bool)

// verifOnSync installs an environment hook that the engine runs before every
// synchronisation operation (mutex, atomic, channel, select) of the harness
// thread: interference by other goroutines at exactly those points.
func verifOnSync(f func())

// verifOnBlock installs a hook that runs when no thread can make progress
// (terminal state); with it installed, blocking for ever ends the path quietly.
func verifOnBlock(f func())
func verifThreadID() int
func verifLiveGoroutines() int
func verifSpawnCount() int
func verifBlockedCount() int
func verifTrace(msg string, vals ...any)

// verifDeadline reports the timeout a context was created with (WithTimeout).
func verifDeadline(ctx context.Context) (time.Duration, bool)

// verifExpire fires the deadline of ctx's innermost deadline-carrying ancestor.
func verifExpire(ctx context.Context) bool

func verifMutexHeld(l sync.Locker) bool

// verifWaitGroupCount: the wait-group's counter (natively: 0 or "some").
func verifWaitGroupCount(wg *sync.WaitGroup) int

// verifSameDuration: exact equality in the engine; natively allows for the time already elapsed.
func verifSameDuration(got, want time.Duration) bool

// verifObserve records an observable for the concordance check (engine
// prediction under the model vs. native execution).
func verifObserve(tag string, v uint64)

// verifWire: the serialised form of a BytesValue message with the given payload.
// The engine models proto.Marshal/Unmarshal as carrying the payload bytes
// unchanged; natively this is the real protobuf encoding.
func verifWire(payload []byte) []byte

// verifNative: false under the symbolic engine, true in a native replay.
func verifNative() bool
