package grpctunnel

import (
	"context"
	"errors"
	"io"

	"github.com/fullstorydev/grpchan"
	"google.golang.org/grpc"
	"google.golang.org/grpc/codes"
	"google.golang.org/grpc/metadata"
	"google.golang.org/grpc/status"
	"google.golang.org/protobuf/types/known/emptypb"
	"google.golang.org/protobuf/types/known/wrapperspb"

	"github.com/jhump/grpctunnel/tunnelpb"
)

// ---------------------------------------------------------------------------
// doubles shared by the server-side harnesses

type vCtxKey struct{}

// vSrvCarrier stands in for the gRPC stream that carries the tunnel (server end):
// Recv yields a scripted frame sequence, then lets every goroutine the
// library started run to quiescence, then ends with endErr. Send logs.
type vSrvCarrier struct {
	ctx       context.Context
	script    []*tunnelpb.ClientToServer
	pos       int
	endErr    error
	sent      []*tunnelpb.ServerToClient
	sentBy    []int
	failSend  bool
	sendErr   error
	drainBlks int
	onQuiesce func() // runs once every goroutine has come to rest, with the tunnel still up
	pauseAt   int    // >0: before delivering script[pauseAt] everything is left to come to rest (the peer is slow)
	onRecv    func() // runs while the loop is parked in Recv, before the next frame is handed over
}

func (c *vSrvCarrier) Context() context.Context { return c.ctx }

func (c *vSrvCarrier) Send(m *tunnelpb.ServerToClient) error {
	c.sentBy = append(c.sentBy, verifThreadID())
	if c.failSend {
		return c.sendErr
	}
	c.sent = append(c.sent, m)
	return nil
}

func (c *vSrvCarrier) Recv() (*tunnelpb.ClientToServer, error) {
	if c.onRecv != nil {
		c.onRecv()
	}
	if c.pos < len(c.script) {
		if c.pauseAt > 0 && c.pos == c.pauseAt {
			b0 := verifBlockedCount()
			verifDrain()
			c.drainBlks += verifBlockedCount() - b0
		}
		c.pos++
		return c.script[c.pos-1], nil
	}
	b0 := verifBlockedCount()
	verifDrain()
	c.drainBlks += verifBlockedCount() - b0
	if c.onQuiesce != nil {
		c.onQuiesce()
	}
	return nil, c.endErr
}

// monitors standing in for a bystander stream's sender / receiver
type vSndMon struct {
	updates []uint32
	msgs    int
}

func (s *vSndMon) send(data []byte) error  { s.msgs++; return nil }
func (s *vSndMon) updateWindow(add uint32) { s.updates = append(s.updates, add) }

type vRcvMonC2S struct {
	accepted   []tunnelpb.ClientToServerFrame
	closes     int
	cancels    int
	rejectWith error
}

func (r *vRcvMonC2S) accept(f tunnelpb.ClientToServerFrame) error {
	r.accepted = append(r.accepted, f)
	return r.rejectWith
}
func (r *vRcvMonC2S) close()  { r.closes++ }
func (r *vRcvMonC2S) cancel() { r.cancels++ }
func (r *vRcvMonC2S) dequeue() (tunnelpb.ClientToServerFrame, bool) {
	return nil, false
}

type vInvocation struct {
	svc       string
	method    string
	streaming bool
	ctx       context.Context
	stream    grpc.ServerStream
	// flow-control state of the stream at the moment the handler was entered
	fcSender, fcReceiver bool
	rcvWindow, sndWindow uint32
	rcvQueued            uint64
	// call shape the server derived for the stream
	clientStreams, serverStreams bool
}

type vSvcImpl struct{ name string }

type vHandlerLog struct {
	calls   []vInvocation
	result  error
	readOne bool // the streaming handler reads one request before returning
	readErr error
	returns int  // handler invocations that have returned
	sendOne bool // the streaming handler sends one response first
}

func vHandlers(hl *vHandlerLog) grpchan.HandlerMap {
	hm := grpchan.HandlerMap{}
	for _, sn := range []string{"a", "b.c"} {
		sn := sn
		unary := func(srv any, ctx context.Context, dec func(any) error, _ grpc.UnaryServerInterceptor) (any, error) {
			hl.calls = append(hl.calls, vInvocation{svc: srv.(*vSvcImpl).name, method: sn + "/u", ctx: ctx})
			defer func() { hl.returns++ }()
			if hl.readOne {
				// generated code decodes the request first
				if hl.readErr = dec(&wrapperspb.BytesValue{}); hl.readErr != nil {
					return nil, hl.readErr
				}
			}
			if hl.result != nil {
				return nil, hl.result
			}
			return &emptypb.Empty{}, nil
		}
		mkStream := func(mname string) grpc.StreamHandler {
			return func(srv any, st grpc.ServerStream) error {
				inv := vInvocation{svc: srv.(*vSvcImpl).name, method: sn + "/" + mname, streaming: true, ctx: st.Context(), stream: st}
				if ss, ok := st.(*tunnelServerStream); ok {
					inv.clientStreams, inv.serverStreams = ss.isClientStream, ss.isServerStream
					if ds, ok := ss.sender.(*defaultSender); ok {
						inv.fcSender, inv.sndWindow = true, ds.currentWindow.Load()
					}
					if fr, ok := ss.receiver.(*defaultReceiver[tunnelpb.ClientToServerFrame]); ok {
						inv.fcReceiver = true
						fr.mu.Lock()
						inv.rcvWindow = fr.currentWindow
						for e := fr.items.Front(); e != nil; e = e.Next() {
							inv.rcvQueued += uint64(fr.measure(e.Value.(tunnelpb.ClientToServerFrame)))
						}
						fr.mu.Unlock()
					}
				}
				hl.calls = append(hl.calls, inv)
				defer func() { hl.returns++ }()
				if hl.sendOne {
					_ = st.SendMsg(&emptypb.Empty{})
				}
				if hl.readOne {
					hl.readErr = st.RecvMsg(&wrapperspb.BytesValue{})
				}
				return hl.result
			}
		}
		desc := &grpc.ServiceDesc{
			ServiceName: sn,
			HandlerType: (*any)(nil),
			Methods:     []grpc.MethodDesc{{MethodName: "u", Handler: unary}},
			Streams: []grpc.StreamDesc{{StreamName: "s", Handler: mkStream("s"), ClientStreams: true, ServerStreams: true},
				{StreamName: "ss", Handler: mkStream("ss"), ServerStreams: true},
				{StreamName: "cs", Handler: mkStream("cs"), ClientStreams: true},
				{StreamName: "nn", Handler: mkStream("nn")}}, // a stream handler for a method with single request and response
		}
		hm.RegisterService(desc, &vSvcImpl{sn})
	}
	return hm
}

type vBystander struct {
	id  int64
	st  *tunnelServerStream
	snd *vSndMon
	rcv *vRcvMonC2S
	ctx context.Context
}

func vAddBystander(svr *tunnelServer, id int64, parent context.Context) *vBystander {
	ctx, cancel := context.WithCancel(parent)
	b := &vBystander{id: id, snd: &vSndMon{}, rcv: &vRcvMonC2S{}, ctx: ctx}
	b.st = &tunnelServerStream{ctx: ctx, cancel: cancel, svr: svr, streamID: id, method: "a/s", stream: svr.stream,
		isClientStream: true, isServerStream: true, sender: b.snd, receiver: b.rcv}
	svr.streams[id] = b.st
	return b
}

func (b *vBystander) untouched(tag string) {
	verifAssert(len(b.snd.updates) == 0 && b.snd.msgs == 0, "C01+C03.bystander-sender-untouched-"+tag)
	verifAssert(len(b.rcv.accepted) == 0 && b.rcv.closes == 0 && b.rcv.cancels == 0, "C01+C03.bystander-receiver-untouched-"+tag)
	verifAssert(b.ctx.Err() == nil, "C03+C07.bystander-context-live-"+tag)
	verifAssert(b.st.svr.streams[b.id] == b.st, "C03+C14.bystander-still-in-table-"+tag)
	verifAssert(b.st.halfClosed.Load() == nil, "C03.bystander-not-half-closed-"+tag)
}

// frames sent for a given stream id, in order
func (c *vSrvCarrier) framesFor(id int64) []*tunnelpb.ServerToClient {
	var out []*tunnelpb.ServerToClient
	for _, f := range c.sent {
		if f.StreamId == id {
			out = append(out, f)
		}
	}
	return out
}

func vWithoutStream(frames []*tunnelpb.ServerToClient, id int64) []*tunnelpb.ServerToClient {
	var out []*tunnelpb.ServerToClient
	for _, f := range frames {
		if f.StreamId != id {
			out = append(out, f)
		}
	}
	return out
}

func vCloseCode(f *tunnelpb.ServerToClient) (codes.Code, bool) {
	cs, ok := f.Frame.(*tunnelpb.ServerToClient_CloseStream)
	if !ok {
		return 0, false
	}
	return codes.Code(cs.CloseStream.Status.GetCode()), true
}

// vRefMethod is the reference reading of a method name: an optional leading
// slash, then "service/method". class: 0 malformed, 1 unknown, 2 known.
func vRefMethod(name string) (class int, svc string, method string) {
	if len(name) > 0 && name[0] == '/' {
		name = name[1:]
	}
	cut := -1
	for i := 0; i < len(name); i++ {
		if name[i] == '/' && cut < 0 {
			cut = i
		}
	}
	if cut < 0 {
		return 0, "", ""
	}
	svc, method = name[:cut], name[cut+1:]
	if (svc == "a" || svc == "b.c") && (method == "u" || method == "s" || method == "ss" || method == "cs" || method == "nn") {
		return 2, svc, method
	}
	return 1, svc, method
}

func vNoLoopSends(c *vSrvCarrier, tag string) {
	for _, th := range c.sentBy {
		verifAssert(th != 0, "C03+C05.no-carrier-send-on-receive-loop-"+tag)
	}
}

// S-SRV-STEP/new (C03 C08 C09 C10 C13 C14 C17 C18): one new_stream frame, with
// any id, method name, revision, window and (optionally) a grpc-timeout
// header, processed from an arbitrary valid server state (high-water mark L,
// up to two live bystander streams), optionally followed by the request
// frames a client sends before it can know the outcome.
func verifH_SrvNewStream() {
	base := context.WithValue(context.Background(), vCtxKey{}, "carrier-value")
	// the tunnel-opening call's own request metadata is on the carrier context
	base = metadata.NewIncomingContext(base, metadata.MD{"authorization": {"opener-secret"}})
	carCtx, carCancel := context.WithCancel(base)
	car := &vSrvCarrier{ctx: carCtx, endErr: io.EOF}
	// The input space is explored one dimension group at a time (the others
	// are pinned to representative values); the full cross product is outside
	// the bound.
	//   focus 0: method name x revision x shutdown flag
	//   focus 1: ids: high-water mark, bystander ids, frame id; shutdown flag; continuation
	//   focus 2: request headers / grpc-timeout; handler result
	//   focus 3: rejection kind x continuation frame
	focus := verifChoice("focus", 4)
	closing := false
	if focus != 2 {
		closing = verifBool("closing")
	}
	if closing && verifBool("shutdownWhileParked") {
		// shutdown is initiated while the receive loop is parked in Recv: the very next RPC is refused
		closing = false
		car.onRecv = func() { closing = true }
	}
	hl := &vHandlerLog{}
	if focus == 2 && verifBool("handlerFails") {
		hl.result = status.Error(codes.Code(verifU32("hcode")), "handler error")
	}
	tmd := metadata.MD{"tk": {"tv"}}
	L := verifI64("lastSeen")
	verifAssume(L >= -1)
	svr := &tunnelServer{stream: car, services: vHandlers(hl), tunnelOpts: &tunnelOpts{},
		isClosing: func() bool { return closing }, streams: map[int64]*tunnelServerStream{}, lastSeen: L}
	var bys []*vBystander
	nby := 1
	if focus == 1 {
		nby = verifChoice("bystanders", 3)
	}
	for i := 0; i < nby; i++ {
		id := verifI64("bid")
		verifAssume(id >= 0 && id <= L)
		if i > 0 {
			verifAssume(id != bys[0].id)
		}
		bys = append(bys, vAddBystander(svr, id, carCtx))
	}

	fid := verifI64("fid")
	if focus != 1 {
		verifAssume(fid > L)
	}
	var name string
	switch focus {
	case 0:
		name = verifString("method", verifParam("methodlen"))
	case 3:
		name = []string{"", "/", "nomethod", "a/zz", "/b.c/s", "a/u"}[verifChoice("name", 6)]
	default:
		name = []string{"a/u", "/b.c/s"}[verifChoice("name", 2)]
	}
	rev := tunnelpb.ProtocolRevision_REVISION_ONE
	if focus == 0 || focus == 3 {
		rev = tunnelpb.ProtocolRevision(verifI32("revision"))
	} else if verifBool("rev0") {
		rev = tunnelpb.ProtocolRevision_REVISION_ZERO
	}
	win := verifU32("window")
	ns := &tunnelpb.NewStream{MethodName: name, ProtocolRevision: rev, InitialWindowSize: win}
	hdrShape := 0
	if focus == 2 {
		hdrShape = verifChoice("headers", 4)
	}
	var tmo string
	switch hdrShape {
	case 1:
		// (the second key is not the grpc-timeout header: header names are case-sensitive on this wire, and a
		// conforming gRPC peer only sends lower-case ones; it must reach the handler as sent and set no deadline)
		ns.RequestHeaders = &tunnelpb.Metadata{Md: map[string]*tunnelpb.Metadata_Values{"k": {Val: []string{"v1", "v2"}}, "Grpc-Timeout": {Val: []string{"50m"}}}}
	case 2:
		tmo = verifString("timeout", verifParam("timeoutlen"))
		ns.RequestHeaders = &tunnelpb.Metadata{Md: map[string]*tunnelpb.Metadata_Values{"grpc-timeout": {Val: []string{tmo}}}}
	case 3:
		// a repeated header: the last value is the effective one, whatever precedes it
		n := verifParam("timeoutlen")
		if n > 3 {
			n = 3
		}
		tmo = verifString("timeout", n)
		first := "1H"
		if verifBool("firstMalformed") {
			first = "bogus"
		}
		ns.RequestHeaders = &tunnelpb.Metadata{Md: map[string]*tunnelpb.Metadata_Values{"grpc-timeout": {Val: []string{first, tmo}}}}
	}
	car.script = []*tunnelpb.ClientToServer{{StreamId: fid, Frame: &tunnelpb.ClientToServer_NewStream{NewStream: ns}}}
	// what a client may send next for the same id, before it hears back
	cont := 0
	if focus == 1 || focus == 3 {
		cont = verifChoice("continuation", 5)
	}
	switch cont {
	case 4:
		// another client goroutine starts the next RPC right behind it (an unknown method: rejected)
		verifAssume(fid < 0x7fffffffffffffff)
		car.script = append(car.script, &tunnelpb.ClientToServer{StreamId: fid + 1, Frame: &tunnelpb.ClientToServer_NewStream{
			NewStream: &tunnelpb.NewStream{MethodName: "no/such", ProtocolRevision: tunnelpb.ProtocolRevision_REVISION_ONE}}})
	case 1:
		car.script = append(car.script, &tunnelpb.ClientToServer{StreamId: fid, Frame: &tunnelpb.ClientToServer_RequestMessage{
			RequestMessage: &tunnelpb.MessageData{Size: 0}}})
	case 2:
		car.script = append(car.script, &tunnelpb.ClientToServer{StreamId: fid, Frame: &tunnelpb.ClientToServer_HalfClose{HalfClose: &emptypb.Empty{}}})
	case 3:
		car.script = append(car.script, &tunnelpb.ClientToServer{StreamId: fid, Frame: &tunnelpb.ClientToServer_Cancel{Cancel: &emptypb.Empty{}}})
	}

	// with the tunnel still up and everything at rest: what is left of this RPC?
	liveAtRest, returnsAtRest, tableAtRest := -1, -1, -1
	car.onQuiesce = func() {
		liveAtRest, returnsAtRest, tableAtRest = verifLiveGoroutines(), hl.returns, len(svr.streams)
	}
	if focus == 1 {
		hl.sendOne = true // a streaming handler that responds (and parks if the peer granted no window)
	}
	err := svr.serve(tmd)
	loopBlocks := verifBlockedCount() - car.drainBlks
	verifDrain()

	vNoLoopSends(car, "new")
	verifAssert(loopBlocks == 0, "C03.receive-loop-never-blocks-new")
	mine := car.framesFor(fid)

	if fid <= L {
		// id reuse / going backwards / negative: tunnel-level protocol error
		verifCover("id-refused")
		verifAssert(err != nil, "C08+C09.stale-id-ends-tunnel")
		verifAssert(len(hl.calls) == 0, "C08.stale-id-no-handler")
		verifAssert(svr.lastSeen == L, "C08.stale-id-mark-unchanged")
		for _, b := range bys {
			verifAssert(len(b.rcv.accepted) == 0 && len(b.snd.updates) == 0, "C08.stale-id-frames-reach-no-stream")
		}
		return
	}
	for _, b := range bys {
		b.untouched("new")
	}
	// a fresh id: whatever happens to the RPC, the tunnel stays up and the id is spent
	verifAssert(err == nil, "C03+C09+C10.stream-level-outcome-keeps-tunnel")
	if cont == 4 {
		verifCover("two-new-streams")
		verifAssert(svr.lastSeen == fid+1, "C08.second-id-recorded")
		next := car.framesFor(fid + 1)
		verifAssert(len(next) == 1, "C08+C13.each-rejected-rpc-gets-its-own-close-frame")
		car.sent = vWithoutStream(car.sent, fid+1)
	} else {
		verifAssert(svr.lastSeen == fid, "C03+C08+C10.id-recorded")
	}
	_, still := svr.streams[fid]
	verifAssert(!still, "C14.no-table-entry-after-finish")
	verifAssert(verifLiveGoroutines() == 0, "C14.no-goroutine-left")

	class, svc, method := vRefMethod(name)
	reject := codes.OK
	switch {
	case closing:
		reject = codes.Unavailable
	case rev != tunnelpb.ProtocolRevision_REVISION_ZERO && rev != tunnelpb.ProtocolRevision_REVISION_ONE:
		reject = codes.Unavailable
	case class == 0:
		reject = codes.InvalidArgument
	case class == 1:
		reject = codes.Unimplemented
	}
	if reject != codes.OK {
		verifCover("rejected")
		verifAssert(len(hl.calls) == 0, "C08+C10.rejected-no-handler")
		verifAssert(len(mine) == 1, "C09+C13.rejected-exactly-one-frame")
		if len(mine) == 1 {
			code, isClose := vCloseCode(mine[0])
			verifAssert(isClose, "C13.rejected-gets-close-frame")
			verifAssert(code == reject, "C09+C10.rejection-code")
		}
		verifAssert(len(car.sent) == len(mine), "C03.rejection-no-foreign-frames")
		return
	}
	verifCover("accepted")
	verifAssert(len(hl.calls) == 1, "C08.exactly-one-handler-invocation")
	if len(hl.calls) != 1 {
		return
	}
	if cont == 3 {
		// the RPC was cancelled by its caller: everything it held is released while the tunnel stays up
		verifCover("cancelled-while-tunnel-up")
		verifAssert(returnsAtRest == 1, "C07+C14.cancelled-rpc-handler-released-while-tunnel-stays-up")
		verifAssert(liveAtRest == 0, "C07+C14.cancelled-rpc-goroutines-gone-while-tunnel-stays-up")
		verifAssert(tableAtRest == nby, "C07+C14.cancelled-rpc-table-entry-gone-while-tunnel-stays-up")
	}
	inv := hl.calls[0]
	verifAssert(inv.svc == svc && inv.method == svc+"/"+method, "C08.the-named-handler")
	verifAssert(inv.streaming == (method != "u"), "C08+C16.call-shape-from-descriptor")
	if inv.streaming {
		// the shape the server will enforce is the descriptor's, per direction
		verifAssert(inv.clientStreams == (method == "s" || method == "cs") && inv.serverStreams == (method == "s" || method == "ss"), "C16.srv-enforced-shape-is-the-descriptors")
		if method == "ss" || method == "cs" {
			verifCover("one-sided-streaming-method")
		}
	}
	// C17: handler context
	tm, ok := TunnelMetadataFromIncomingContext(inv.ctx)
	verifAssert(ok && len(tm) == 1 && len(tm["tk"]) == 1 && tm["tk"][0] == "tv", "C17.tunnel-metadata-visible")
	verifAssert(inv.ctx.Value(vCtxKey{}) == "carrier-value", "C17.carrier-context-values-inherited")
	rmd, _ := metadata.FromIncomingContext(inv.ctx)
	if hdrShape == 1 {
		verifAssert(len(rmd["k"]) == 2 && rmd["k"][0] == "v1" && rmd["k"][1] == "v2", "C02+C17.request-metadata-delivered")
		// (metadata.FromIncomingContext hands out lower-cased keys)
		verifAssert(len(rmd) == 2 && len(rmd["grpc-timeout"]) == 1 && rmd["grpc-timeout"][0] == "50m", "C02+C17.only-the-rpcs-own-request-metadata")
	}
	if hdrShape == 0 {
		// no request metadata: the handler must not see the tunnel opener's instead
		verifAssert(len(rmd) == 0, "C02+C17.no-request-metadata-means-none")
	}
	// C06/C11: the stream's flow-control components (visible through the ServerStream a streaming handler gets)
	if inv.streaming {
		wantFC := rev == tunnelpb.ProtocolRevision_REVISION_ONE
		verifAssert(inv.fcSender == wantFC && inv.fcReceiver == wantFC, "C11.srv-flow-control-iff-revision-one")
		if wantFC && inv.fcSender && inv.fcReceiver {
			verifCover("fc-stream")
			// the receiver enforces the window this server advertises; the sender starts with the peer's
			verifAssert(uint64(inv.rcvWindow)+inv.rcvQueued == initialWindowSize, "C06.srv-receiver-enforces-the-advertised-window")
			verifAssert(inv.sndWindow == win, "C06+C11.srv-sender-starts-with-the-peers-window")
		}
	}
	d, hasDeadline := verifDeadline(inv.ctx)
	if hdrShape >= 2 {
		wf, want, _ := refTimeout(tmo)
		if wf {
			verifCover("deadline")
			verifAssert(hasDeadline && verifSameDuration(d, want), "C18.handler-deadline-from-header")
		}
		if !wf {
			verifAssert(!hasDeadline, "C18.malformed-header-no-deadline")
		}
	} else {
		verifAssert(!hasDeadline, "C18.no-grpc-timeout-header-no-deadline")
	}
	verifAssert(inv.ctx.Err() != nil, "C04+C14.handler-context-cancelled-after-finish")
	// C13: frames of this stream: [headers] ... close is last, exactly one close
	nclose := 0
	for i, f := range mine {
		if _, isClose := vCloseCode(f); isClose {
			nclose++
			if cont != 3 {
				verifAssert(i == len(mine)-1, "C13.close-is-last-frame")
			}
		}
		if _, isHdr := f.Frame.(*tunnelpb.ServerToClient_ResponseHeaders); isHdr && cont != 3 {
			// (after a client cancel the caller has finished; what the handler
			// still emits is outside the statement)
			verifAssert(i == 0, "C13.headers-first")
		}
	}
	verifAssert(nclose == 1, "C13.exactly-one-close-frame")
	verifAssert(len(car.sent) == len(mine), "C03.no-foreign-frames")
	if cont != 3 && len(mine) > 0 {
		code, _ := vCloseCode(mine[len(mine)-1])
		if hl.result != nil {
			verifAssert(code == status.Code(hl.result), "C02.close-carries-handler-status")
		} else if method != "u" {
			verifAssert(code == codes.OK, "C02.close-carries-ok")
		}
	}
	_ = carCancel
}

// S-SRV-STEP/other (C01 C03 C05 C06 C07 C08 C09): one frame other than
// new_stream (any kind incl. an empty oneof), any id, from an arbitrary valid
// server state with up to two live bystander streams whose sender/receiver
// are monitors.
func verifH_SrvFrame() {
	carCtx, carCancel := context.WithCancel(context.Background())
	defer carCancel()
	car := &vSrvCarrier{ctx: carCtx, endErr: io.EOF}
	hl := &vHandlerLog{}
	closing := verifBool("closing")
	L := verifI64("lastSeen")
	verifAssume(L >= -1)
	svr := &tunnelServer{stream: car, services: vHandlers(hl), tunnelOpts: &tunnelOpts{},
		isClosing: func() bool { return closing }, streams: map[int64]*tunnelServerStream{}, lastSeen: L}
	var bys []*vBystander
	nby := verifChoice("bystanders", 3)
	for i := 0; i < nby; i++ {
		id := verifI64("bid")
		verifAssume(id >= 0 && id <= L)
		if i > 0 {
			verifAssume(id != bys[0].id)
		}
		bys = append(bys, vAddBystander(svr, id, carCtx))
	}
	overrun := errors.New("window exceeded")
	for _, b := range bys {
		if verifBool("receiverRejects") {
			b.rcv.rejectWith = overrun
		}
	}
	fid := verifI64("fid")
	kind := verifChoice("kind", 6)
	var frame tunnelpb.ClientToServerFrame
	var upd uint32
	switch kind {
	case 0:
		frame = &tunnelpb.ClientToServer_RequestMessage{RequestMessage: &tunnelpb.MessageData{Size: verifU32("size"), Data: verifBytes("data", 8)}}
	case 1:
		frame = &tunnelpb.ClientToServer_MoreRequestData{MoreRequestData: verifBytes("data", 8)}
	case 2:
		frame = &tunnelpb.ClientToServer_HalfClose{HalfClose: &emptypb.Empty{}}
	case 3:
		frame = &tunnelpb.ClientToServer_Cancel{Cancel: &emptypb.Empty{}}
	case 4:
		upd = verifU32("update")
		frame = &tunnelpb.ClientToServer_WindowUpdate{WindowUpdate: upd}
	case 5:
		frame = nil // an unknown / empty oneof
	}
	car.script = []*tunnelpb.ClientToServer{{StreamId: fid, Frame: frame}}
	err := svr.serve(nil)
	loopBlocks := verifBlockedCount() - car.drainBlks
	verifDrain()

	vNoLoopSends(car, "frame")
	verifAssert(loopBlocks == 0, "C03.receive-loop-never-blocks-frame")
	var target *vBystander
	for _, b := range bys {
		if b.id == fid {
			target = b
		} else {
			b.untouched("frame")
		}
	}
	verifAssert(len(hl.calls) == 0, "C08.no-handler-without-new-stream")
	verifAssert(svr.lastSeen == L, "C08.mark-unchanged-by-other-frames")
	if target == nil {
		if fid <= L {
			verifCover("late-frame")
			verifAssert(err == nil, "C07+C08.late-frame-ignored")
			verifAssert(len(car.sent) == 0, "C07.late-frame-no-reply")
			verifAssert(len(svr.streams) == nby, "C07.late-frame-table-unchanged")
		} else {
			verifCover("never-created")
			verifAssert(err != nil, "C08+C09.frame-for-unknown-id-ends-tunnel")
		}
		return
	}
	verifCover("for-live-stream")
	verifAssert(err == nil, "C03+C09.stream-frame-keeps-tunnel")
	finished := false
	switch kind {
	case 0, 1:
		verifAssert(len(target.rcv.accepted) == 1 && target.rcv.accepted[0] == frame, "C01.data-frame-reaches-its-stream-unchanged")
		verifAssert(len(target.snd.updates) == 0, "C01.data-frame-not-a-window-update")
		if target.rcv.rejectWith != nil {
			verifCover("overrun")
			finished = true // window overrun fails this RPC only
		}
	case 2:
		verifAssert(target.rcv.closes == 1 && len(target.rcv.accepted) == 0, "C01.half-close-closes-receiver")
		h := target.st.halfClosed.Load()
		verifAssert(h != nil && h.error == io.EOF, "C01.half-close-marker-is-eof")
		verifAssert(target.ctx.Err() == nil, "C07.half-close-does-not-cancel")
	case 3:
		finished = true
	case 4:
		verifAssert(len(target.snd.updates) == 1 && target.snd.updates[0] == upd, "C05.window-update-reaches-its-sender")
		verifAssert(len(target.rcv.accepted) == 0 && target.rcv.closes == 0, "C05.window-update-only")
	case 5:
		finished = true
	}
	mine := car.framesFor(fid)
	if finished {
		verifAssert(target.ctx.Err() != nil, "C06+C07+C09.stream-context-cancelled")
		_, still := svr.streams[fid]
		verifAssert(!still, "C07+C14.finished-stream-leaves-table")
		verifAssert(len(svr.streams) == nby-1, "C03+C14.only-that-stream-leaves-table")
		nclose := 0
		for _, f := range mine {
			if code, isClose := vCloseCode(f); isClose {
				nclose++
				switch kind {
				case 3:
					// the caller has already finished locally; any non-OK status will do
					verifAssert(code != codes.OK, "C07.cancel-frame-status-not-ok")
				case 5:
					verifAssert(code != codes.OK, "C09.unknown-frame-fails-rpc")
				}
			}
		}
		verifAssert(nclose == 1, "C13.exactly-one-close-frame-on-finish")
		verifAssert(target.rcv.closes == 1, "C07.receiver-released")
	} else {
		verifAssert(target.ctx.Err() == nil, "C03.stream-stays-live")
		verifAssert(svr.streams[fid] == target.st, "C03.stream-stays-in-table")
		verifAssert(len(mine) == 0, "C13.no-frame-emitted")
	}
	verifAssert(len(car.sent) == len(mine), "C03.no-foreign-frames-frame")
}
