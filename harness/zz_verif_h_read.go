package grpctunnel

import (
	"context"
	"io"

	"google.golang.org/grpc/codes"
	"google.golang.org/grpc/status"
	"google.golang.org/protobuf/types/known/emptypb"
	"google.golang.org/protobuf/types/known/wrapperspb"

	"github.com/jhump/grpctunnel/tunnelpb"
)

// A scripted queue standing in for receiver.dequeue(): it yields the frames
// of the script and then reports "no more" (closed-and-drained or cancelled).
// onEnd runs when the end is reached *inside* a dequeue call, i.e. while the
// reader is blocked: that is where a deadline or a teardown strikes.
type vScriptC2S struct {
	frames []tunnelpb.ClientToServerFrame
	pos    int
	onEnd  func()
	ended  int
}

func (r *vScriptC2S) accept(tunnelpb.ClientToServerFrame) error { return nil }
func (r *vScriptC2S) close()                                    {}
func (r *vScriptC2S) cancel()                                   {}
func (r *vScriptC2S) dequeue() (tunnelpb.ClientToServerFrame, bool) {
	if r.pos < len(r.frames) {
		r.pos++
		return r.frames[r.pos-1], true
	}
	r.ended++
	if r.ended == 1 && r.onEnd != nil {
		r.onEnd()
	}
	return nil, false
}

type vScriptS2C struct {
	frames []tunnelpb.ServerToClientFrame
	pos    int
	onEnd  func()
	ended  int
}

func (r *vScriptS2C) accept(tunnelpb.ServerToClientFrame) error { return nil }
func (r *vScriptS2C) close()                                    {}
func (r *vScriptS2C) cancel()                                   {}
func (r *vScriptS2C) dequeue() (tunnelpb.ServerToClientFrame, bool) {
	if r.pos < len(r.frames) {
		r.pos++
		return r.frames[r.pos-1], true
	}
	r.ended++
	if r.ended == 1 && r.onEnd != nil {
		r.onEnd()
	}
	return nil, false
}

// the reference reading of a frame script: messages are an envelope stating
// the total size followed by continuation frames adding up exactly to it.
type vRefFrame struct {
	kind int // 0 envelope, 1 continuation, 2 foreign
	size uint32
	data []byte
}

// vRefNext parses one message starting at script[i]. ok: a complete message
// ends at script[next-1]; bad: the framing is violated; otherwise the script
// ended in the middle (or before the start) of a message.
func vRefNext(script []vRefFrame, i int) (msg []byte, next int, ok bool, bad bool) {
	if i >= len(script) {
		return nil, i, false, false
	}
	f := script[i]
	if f.kind != 0 {
		return nil, i, false, true
	}
	if uint64(len(f.data)) > uint64(f.size) {
		return nil, i, false, true
	}
	msg = f.data
	i++
	for uint64(len(msg)) < uint64(f.size) {
		if i >= len(script) {
			return nil, i, false, false
		}
		g := script[i]
		if g.kind != 1 {
			return nil, i, false, true
		}
		msg = append(msg, g.data...)
		if uint64(len(msg)) > uint64(f.size) {
			return nil, i, false, true
		}
		i++
	}
	return msg, i, true, false
}

func vBuildScript(n int, dmax int) []vRefFrame {
	var script []vRefFrame
	for i := 0; i < n; i++ {
		k := verifChoice("fkind", 3)
		f := vRefFrame{kind: k}
		switch k {
		case 0:
			f.size = uint32(verifU8("fsize"))
			f.data = verifBytes("fdata", dmax)
		case 1:
			f.data = verifBytes("fdata", dmax)
		}
		script = append(script, f)
	}
	return script
}

// vRecvSrv / vRecvCli: under the engine always the real RecvMsg (proto.Unmarshal is
// modelled as attaching the bytes). In a native replay the symbolic payload is not
// valid protobuf, so where the reference reading expects a message to come back the
// same steps are taken without the decoding; every other case (errors, end of
// stream, framing violations) goes through the real RecvMsg natively as well.
func vRecvSrv(st *tunnelServerStream, m *wrapperspb.BytesValue, expectData bool) error {
	if !verifNative() || !expectData {
		return st.RecvMsg(m)
	}
	data, ok, err := st.readMsg()
	if err != nil {
		if !ok {
			st.finishStream(err)
		}
		return err
	}
	m.Value = data
	return nil
}

func vRecvCli(st *tunnelClientStream, m *wrapperspb.BytesValue, expectData bool) error {
	if !verifNative() || !expectData {
		return st.RecvMsg(m)
	}
	data, ok, err := st.readMsg()
	if err != nil {
		if !ok {
			st.cancelStream(err)
		}
		return err
	}
	m.Value = data
	return nil
}

// S-READ-SRV (C01 C04 C07 C09 C16): the server stream's RecvMsg over every
// script of queue results (envelopes, continuations, foreign frames) and every
// way the queue can end: half-closed and drained, or cancelled (deadline,
// cancel frame, tunnel teardown) while the handler is blocked in Recv.
func verifH_ReadSrv() {
	n := verifChoice("frames", verifParam("frames")+1)
	script := vBuildScript(n, verifParam("datamax"))
	q := &vScriptC2S{}
	for _, f := range script {
		switch f.kind {
		case 0:
			q.frames = append(q.frames, &tunnelpb.ClientToServer_RequestMessage{RequestMessage: &tunnelpb.MessageData{Size: f.size, Data: f.data}})
		case 1:
			q.frames = append(q.frames, &tunnelpb.ClientToServer_MoreRequestData{MoreRequestData: f.data})
		default:
			q.frames = append(q.frames, &tunnelpb.ClientToServer_NewStream{NewStream: &tunnelpb.NewStream{}})
		}
	}
	ctx, cancel := context.WithCancel(context.Background())
	car := &vSrvCarrier{ctx: context.Background(), endErr: io.EOF}
	svr := &tunnelServer{stream: car, streams: map[int64]*tunnelServerStream{}, lastSeen: 5}
	st := &tunnelServerStream{ctx: ctx, cancel: cancel, svr: svr, streamID: 5, method: "a/s", stream: car,
		isClientStream: verifBool("clientStreams"), isServerStream: true, sender: &vSndMon{}, receiver: q}
	svr.streams[5] = st
	// how the queue ends (the contract of receiver.dequeue: "no more" is reported
	// only after the stream was half-closed, or after the context has ended)
	end := verifChoice("end", 3)
	switch end {
	case 0: // the client half-closed; everything was delivered
		st.halfClosed.Store(&errHolder{io.EOF})
	case 1: // the context ends while the handler is blocked in Recv (deadline / teardown); nothing else has happened yet
		q.onEnd = func() { cancel() }
	case 2: // a cancel frame was processed: finishStream(context.Canceled) ran
		q.onEnd = func() { cancel(); st.halfClosed.Store(&errHolder{context.Canceled}) }
	}

	calls := 1
	if st.isClientStream {
		calls = 2
	}
	pos := 0
	for c := 0; c < calls; c++ {
		m := &wrapperspb.BytesValue{}
		want, next, ok, bad := vRefNext(script, pos)
		err := vRecvSrv(st, m, ok && !bad)
		if err == nil {
			verifCover("message")
			// a message is returned only if the peer sent exactly that message next
			verifAssert(ok && !bad, "C01+C09.no-fabricated-or-malformed-message")
			if ok {
				verifAssertBytesEq(m.Value, want, "C01.message-bytes-exact")
				if st.isClientStream {
					verifAssert(q.pos == next, "C01.consumed-exactly-the-message-frames")
				}
			}
			if !st.isClientStream {
				// non-streaming request: success only after end-of-stream was seen with nothing else queued
				// (a truncated second message before the half-close is dropped: the handler still sees one request)
				_, _, second, _ := vRefNext(script, next)
				verifAssert(end == 0 && !second && q.ended > 0, "C16.unary-request-only-when-exactly-one")
			}
			pos = next
			continue
		}
		// an error
		if err == io.EOF {
			verifCover("eof")
			verifAssert(end == 0, "C01+C04+C07.eof-only-after-half-close")
			verifAssert(!bad, "C09.eof-not-for-malformed-framing")
		}
		if bad {
			verifCover("framing-violation")
			verifAssert(status.Code(err) == codes.InvalidArgument || (!st.isClientStream && pos > 0), "C09+C16.framing-violation-is-invalid-argument")
		}
		if !st.isClientStream && ok && !bad && c == 0 {
			// one good message was there: a failure must be due to what followed it
			_, _, ok2, _ := vRefNext(script, next)
			if ok2 {
				verifCover("second-request")
				verifAssert(status.Code(err) == codes.InvalidArgument, "C16.second-request-is-invalid-argument")
			}
		}
		// errors are sticky
		err2 := vRecvSrv(st, &wrapperspb.BytesValue{}, false)
		verifAssert(err2 != nil, "C01+C16.no-message-after-an-error")
		break
	}
	_ = emptypb.Empty{}
}

// S-READ-CLI (C01 C02 C09 C16): the client stream's RecvMsg over every script
// of queue results; the queue ends only after the RPC was finished (done set).
func verifH_ReadCli() {
	n := verifChoice("frames", verifParam("frames")+1)
	script := vBuildScript(n, verifParam("datamax"))
	q := &vScriptS2C{}
	for _, f := range script {
		switch f.kind {
		case 0:
			q.frames = append(q.frames, &tunnelpb.ServerToClient_ResponseMessage{ResponseMessage: &tunnelpb.MessageData{Size: f.size, Data: f.data}})
		case 1:
			q.frames = append(q.frames, &tunnelpb.ServerToClient_MoreResponseData{MoreResponseData: f.data})
		default:
			q.frames = append(q.frames, &tunnelpb.ServerToClient_Settings{Settings: &tunnelpb.Settings{}})
		}
	}
	car := vNewCliCarrier(context.Background())
	c := vNewCliChannel(car, 5, true)
	b := vAddCliStream(c, 5)
	st := b.st
	st.receiver = q
	st.isServerStream = verifBool("serverStreams")
	end := verifChoice("end", 2)
	var finalErr error
	switch end {
	case 0:
		finalErr = io.EOF
	case 1:
		finalErr = status.Error(codes.Code(verifU32("code")), "failed")
		verifAssume(status.Code(finalErr) != codes.OK)
	}
	// the queue reports "no more" only after the RPC was finished (the close frame was processed)
	q.onEnd = func() { st.done.Store(&errHolder{finalErr}) }

	calls := 1
	if st.isServerStream {
		calls = 2
	}
	pos := 0
	for k := 0; k < calls; k++ {
		m := &wrapperspb.BytesValue{}
		want, next, ok, bad := vRefNext(script, pos)
		err := vRecvCli(st, m, ok && !bad)
		if err == nil {
			verifCover("message")
			verifAssert(ok && !bad, "C01+C09.cli-no-fabricated-or-malformed-message")
			if ok {
				verifAssertBytesEq(m.Value, want, "C01.cli-message-bytes-exact")
				if st.isServerStream {
					verifAssert(q.pos == next, "C01.cli-consumed-exactly-the-message-frames")
				}
			}
			if !st.isServerStream {
				_, _, second, _ := vRefNext(script, next)
				verifAssert(end == 0 && !second && q.ended > 0, "C02+C04+C07+C16.unary-response-only-when-exactly-one-and-ok")
			}
			pos = next
			continue
		}
		if err == io.EOF {
			verifCover("eof")
			verifAssert(end == 0 && !bad, "C01+C02.cli-eof-only-after-ok-close")
		}
		if bad {
			verifCover("framing-violation")
			verifAssert(err != io.EOF, "C09.cli-framing-violation-is-an-error")
		}
		if !ok && !bad && pos == len(script) {
			// nothing more was sent: the terminal result is the status of the close frame
			verifAssert(err == finalErr, "C02.cli-terminal-result-is-the-close-status")
		}
		twoResponses := false
		if !st.isServerStream && ok && !bad && k == 0 {
			_, _, ok2, _ := vRefNext(script, next)
			if ok2 {
				twoResponses = true
				verifCover("second-response")
				verifAssert(status.Code(err) == codes.Internal, "C16.second-response-is-internal-error")
			}
		}
		err2 := vRecvCli(st, &wrapperspb.BytesValue{}, false)
		verifAssert(err2 != nil, "C01+C16.cli-no-message-after-an-error")
		if (bad || twoResponses) && q.ended == 0 {
			// the caller gives up on an RPC whose peer violated the framing: the peer must be told
			// (a cancel frame), otherwise it keeps the stream and its handler for ever
			verifDrain()
			ncancel := 0
			for _, f := range car.sent {
				if _, isC := f.Frame.(*tunnelpb.ClientToServer_Cancel); isC && f.StreamId == 5 {
					ncancel++
				}
			}
			verifAssert(ncancel == 1, "C07+C09+C14.protocol-error-cancels-the-rpc-at-the-peer")
			// ... and nothing of it stays on this end either
			_, still := c.streams[5]
			verifAssert(!still && st.done.Load() != nil, "C14+C16.rpc-abandoned-over-a-protocol-error-leaves-the-table")
			verifAssert(verifLiveGoroutines() == 0, "C14.rpc-abandoned-over-a-protocol-error-leaves-no-goroutine")
		}
		break
	}
}
