package grpctunnel

import (
	"context"
	"errors"
	"io"

	"google.golang.org/grpc"
	"google.golang.org/grpc/metadata"
	"google.golang.org/protobuf/types/known/wrapperspb"
	spb "google.golang.org/genproto/googleapis/rpc/status"

	"github.com/jhump/grpctunnel/tunnelpb"
)

// CONC harnesses: the threads are real goroutine bodies run by the engine's
// cooperative scheduler; at every synchronisation operation performed by
// code of this package the scheduler may switch threads (all interleavings
// up to the stated number of preemptions; switches at blocking points are
// free). Data stays symbolic.

// K-SENDER (C05 C06 C13 C15): send || updateWindow x k || cancel.
func verifK_Sender() {
	chunks := verifParam("chunks")
	nupd := verifParam("updates")
	msg := verifBytes("msg", chunks*chunkMax+1)
	w0 := verifU32("w0")
	ctx, cancel := context.WithCancel(context.Background())
	var log []vframe
	var sent, granted uint64
	granted = uint64(w0)
	mon := &vShapeMon{msg: msg}
	snd := newSender(ctx, w0, func(d []byte, total uint32, first bool) error {
		mon.frame(d, total, first)
		sent += uint64(len(d))
		verifAssert(sent <= granted, "C06.k-sent-within-credit")
		log = append(log, vframe{d, total, first})
		return nil
	})
	ds := snd.(*defaultSender)
	if verifBool("staleToken") {
		ds.windowUpdates <- struct{}{} // left behind by an earlier message
	}
	var err error
	done := false
	cancelled := false
	verifGo("sender", func() {
		err = snd.send(msg)
		done = true
	})
	updDone := false
	verifGo("updater", func() {
		defer func() { updDone = true }()
		for i := 0; i < nupd; i++ {
			add := verifU32("credit")
			// ghost bookkeeping happens before the update becomes visible
			verifAssume(granted+uint64(add) <= 0xffffffff)
			granted += uint64(add)
			snd.updateWindow(add)
		}
	})
	if verifParam("cancel") == 1 {
		verifGo("canceller", func() {
			cancelled = true
			cancel()
		})
	}
	verifDrain()
	// delivering a window update is done on the receive loop's stack: it must never block
	verifAssert(updDone, "C03+C05.k-window-update-never-blocks")
	if !done {
		// terminal state: nobody else can move. A parked sender must be out of credit.
		verifCover("k-sender-parked")
		verifAssert(ds.currentWindow.Load() == 0, "C05.k-parked-only-without-credit")
		verifAssert(len(ds.windowUpdates) == 0, "C05.k-parked-only-without-token")
		verifAssert(!cancelled, "C04+C07.k-parked-only-while-context-live")
	}
	if done {
		off := mon.off
		if err == nil {
			verifCover("k-sent")
			verifAssert(off == len(msg), "C01+C13.k-complete")
		} else {
			verifAssert(cancelled && err == context.Canceled, "C07.k-error-only-when-cancelled")
		}
		verifAssert(uint64(ds.currentWindow.Load()) == granted-sent, "C05+C06.k-window-ledger")
		verifAssert(!verifMutexHeld(&ds.mu), "C15.k-send-mutex-released")
	}
}

// K-RECEIVER (C01 C05 C06 C15): accept x n || dequeue x m || close/cancel on
// the flow-controlled receiver.
func verifK_Receiver() {
	var credits uint64
	rcv := newReceiver[vitem](func(v vitem) uint { return v.sz }, func(c uint32) { credits += uint64(c) }, 100)
	r := rcv.(*defaultReceiver[vitem])
	nacc, ndeq := verifParam("accepts"), verifParam("dequeues")
	var accepted []int
	var got []int
	var consumed uint64
	closer := verifChoice("closer", 3) // 0 none, 1 close, 2 cancel
	deqDone := 0
	verifGo("acceptor", func() {
		for i := 0; i < nacc; i++ {
			sz := uint(verifU8("sz"))
			verifAssume(sz <= 30) // no overrun here (window 100, <=3 items): that is S-RECV-STEP's subject
			_ = rcv.accept(vitem{sz, i + 1})
			accepted = append(accepted, i+1)
		}
	})
	verifGo("consumer", func() {
		for i := 0; i < ndeq; i++ {
			it, ok := rcv.dequeue()
			deqDone++
			if !ok {
				return
			}
			got = append(got, it.id)
			consumed += uint64(it.sz)
		}
	})
	if closer != 0 {
		verifGo("closer", func() {
			if closer == 1 {
				rcv.close()
			} else {
				rcv.cancel()
			}
		})
	}
	verifDrain()
	if deqDone < ndeq && len(got) == deqDone {
		// the consumer is still inside dequeue: it may be parked only on an empty, open queue
		verifCover("k-consumer-parked")
		verifAssert(r.items.Len() == 0 && !r.closed && !r.cancelled, "C05.k-consumer-parked-only-when-empty-and-open")
	}
	// what was dequeued is a prefix (in order, no duplicates) of what was accepted
	// what was dequeued is a prefix of what was submitted: in order, no duplicate, no gap, nothing fabricated
	for i, id := range got {
		verifAssert(id == i+1 && id <= len(accepted), "C01.k-fifo-prefix")
	}
	if closer == 0 {
		want := ndeq
		if nacc < want {
			want = nacc
		}
		verifAssert(len(got) == want, "C01.k-nothing-lost-without-close")
	}
	verifAssert(credits == consumed, "C05+C06.k-credit-equals-consumed")
	verifAssert(!verifMutexHeld(&r.mu), "C15.k-recv-mutex-released")
	if !r.cancelled {
		var q uint64
		for e := r.items.Front(); e != nil; e = e.Next() {
			q += uint64(e.Value.(vitem).sz)
		}
		verifAssert(uint64(r.currentWindow)+q == 100, "C05+C06.k-RI-exact")
	}
}

// K-NOFC-RECV (C01 C09 C11 C15): the revision-zero receiver: accept || dequeue || close (twice).
func verifK_NoFCReceiver() {
	ctx, cancel := context.WithCancel(context.Background())
	defer cancel()
	rcv := newReceiverWithoutFlowControl[vitem](ctx)
	nacc := verifParam("accepts")
	var got []int
	accDone, closeDone := false, false
	// the consumer either reads until the end, or (a handler that has stopped reading) not at all
	reads := verifChoice("consumerReads", 2) == 1
	verifGo("acceptor", func() {
		for i := 0; i < nacc; i++ {
			_ = rcv.accept(vitem{1, i + 1})
		}
		accDone = true
	})
	if reads {
		verifGo("consumer", func() {
			for i := 0; i < nacc+1; i++ {
				it, ok := rcv.dequeue()
				if !ok {
					return
				}
				got = append(got, it.id)
			}
		})
	}
	verifGo("closer", func() {
		rcv.close()
		rcv.cancel()
		closeDone = true
	})
	verifDrain()
	// tearing the stream down releases an accept that is parked on the full queue (and never deadlocks with it)
	verifAssert(accDone && closeDone, "C04+C07+C09+C12+C14+C15.k-nofc-teardown-releases-a-blocked-accept")
	// (no send on a closed channel, no double close: panic obligations; nobody left hanging: deadlock obligation)
	for i, id := range got {
		verifAssert(id == i+1, "C01+C11.k-nofc-fifo-prefix")
	}
	nr := rcv.(*noFlowControlReceiver[vitem])
	verifAssert(!verifMutexHeld(&nr.ingestMu), "C09+C15.k-nofc-lock-released")
}

// K-REGKEY (C12 C15): concurrent registration / lookup for one affinity key.
func verifK_RegistryKey() {
	h := NewTunnelServiceHandler(TunnelServiceHandlerOptions{})
	a, b := &tunnelChannel{}, &tunnelChannel{}
	// optionally another tunnel with the same key is registered already and goes away meanwhile
	var z *tunnelChannel
	if verifBool("oldTunnelLeaves") {
		z = &tunnelChannel{}
		h.reverse.add(z, "k")
		h.reverseChannelsForKey("k").add(z, "k")
		verifGo("close-z", func() { h.unregister(z) })
	}
	var rcA, rcB *reverseChannels
	verifGo("open-a", func() {
		h.reverse.add(a, "k")
		rcA = h.reverseChannelsForKey("k")
		rcA.add(a, "k")
	})
	verifGo("open-b", func() {
		h.reverse.add(b, "k")
		rcB = h.reverseChannelsForKey("k")
		rcB.add(b, "k")
	})
	var waitErr error
	waited := false
	wctx, wcancel := context.WithCancel(context.Background())
	verifGo("waiter", func() {
		waitErr = h.waitForKeyReady(wctx, "k")
		waited = true
	})
	verifDrain()
	wcancel()
	verifDrain()
	if z == nil {
		verifAssert(rcA == rcB, "C12.k-one-pool-per-key")
	} else {
		verifCover("k-old-tunnel-left")
	}
	verifAssert(h.keyIsReady("k"), "C12.k-key-ready-after-registrations")
	verifAssert(waited && waitErr == nil, "C12.k-waiter-released-by-registration")
	p1, p2 := h.pickKey("k"), h.pickKey("k")
	verifAssert(p1 != nil && p2 != nil && p1 != p2, "C12.k-both-tunnels-reachable-round-robin")
	if z != nil {
		verifAssert(p1 != grpc.ClientConnInterface(z) && p2 != grpc.ClientConnInterface(z), "C12.k-closed-tunnel-not-routed-to")
	}
	verifAssert(len(h.AllReverseTunnels()) == 2, "C12.k-all-lists-both")
	verifAssert(!verifMutexHeld(&h.mu) && !verifMutexHeld(&h.reverse.mu), "C15.k-registry-locks-released")
}

// K-IDS (C08 C13 C15): goroutines starting RPCs concurrently: ids reach the wire
// strictly increasing, every RPC's first frame is its new_stream.
func verifK_StreamIDs() {
	c := vNewCliChannel(vNewCliCarrier(context.Background()), 0, false)
	// the carrier as the library really uses it: behind its thread-safe wrapper, whose send mutex makes
	// "just before a frame goes on the wire" a scheduling point (a Cancel can overtake a NewStream only there)
	car := &vFwdClientStream{ctx: context.Background(), hangup: make(chan struct{})}
	c.stream = &threadSafeOpenTunnelClient{TunnelService_OpenTunnelClient: car}
	n := verifParam("starters")
	ids := make([]int64, n)
	ctx0, cancel0 := context.WithCancel(context.Background())
	for i := 0; i < n; i++ {
		i := i
		verifGo("starter", func() {
			ctx := context.Background()
			if i == 0 {
				ctx = ctx0 // this caller's context is cancelled at some point by another goroutine
			}
			st, err := c.newStream(ctx, true, true, "svc/m")
			if err != nil {
				return
			}
			ids[i] = st.streamID
			_ = st.SendMsg(&wrapperspb.BytesValue{Value: []byte{byte(i)}})
		})
	}
	verifGo("canceller", func() { cancel0() })
	verifDrain()
	last := int64(0)
	seenNew := map[int64]bool{}
	for _, f := range car.sent {
		if _, ok := f.Frame.(*tunnelpb.ClientToServer_NewStream); ok {
			verifAssert(f.StreamId > last, "C08.k-ids-strictly-increasing-on-the-wire")
			last = f.StreamId
			seenNew[f.StreamId] = true
		} else {
			verifAssert(seenNew[f.StreamId], "C03+C07+C08+C13.k-new-stream-precedes-every-other-frame")
		}
	}
	for i := 0; i < n; i++ {
		for j := i + 1; j < n; j++ {
			verifAssert(ids[i] != ids[j] || ids[i] == 0, "C08.k-ids-distinct")
		}
	}
	verifAssert(!verifMutexHeld(&c.streamCreation), "C15.k-stream-creation-lock-released")
}

// K-FIN-CLI (C01 C02 C07 C15): the receive loop delivering a message and the
// close frame || the application reading until the end and then asking for
// trailers || the caller's context being cancelled.
func verifK_FinishClient() {
	car := vNewCliCarrier(context.Background())
	c := vNewCliChannel(car, 0, false)
	var hdrT metadata.MD
	st, err := c.newStream(context.Background(), true, true, "svc/m", grpc.Header(&hdrT))
	verifAssume(err == nil)
	code := int32(0)
	if verifBool("fails") {
		code = 3
	}
	w := verifWire([]byte{7})
	var got [][]byte
	var final error
	var trailers metadata.MD
	readerDone := false
	hdrAtReturn := 0
	verifGo("recv-loop", func() {
		st.acceptServerFrame(&tunnelpb.ServerToClient_ResponseHeaders{ResponseHeaders: &tunnelpb.Metadata{
			Md: map[string]*tunnelpb.Metadata_Values{"hk": {Val: []string{"h1"}}}}})
		st.acceptServerFrame(&tunnelpb.ServerToClient_ResponseMessage{ResponseMessage: &tunnelpb.MessageData{Size: uint32(len(w)), Data: w}})
		st.acceptServerFrame(&tunnelpb.ServerToClient_CloseStream{CloseStream: &tunnelpb.CloseStream{
			Status:           &spb.Status{Code: code, Message: "m"},
			ResponseTrailers: &tunnelpb.Metadata{Md: map[string]*tunnelpb.Metadata_Values{"tk": {Val: []string{"t1"}}}}}})
	})
	verifGo("reader", func() {
		h, herr := st.Header()
		if herr != nil {
			// an error from Header() means no headers were delivered; delivered headers win over a simultaneous cancel
			// ("delivered" = signalled: the frame's processing has closed the headers signal)
			verifAssert(!(!vChanOpen(st.gotHeadersSignal) && len(st.headers["hk"]) == 1), "C02+C07.k-delivered-headers-win-over-cancel")
		}
		if herr == nil && len(h["hk"]) == 1 {
			// the grpc.Header target may be read once Header() has returned
			verifAssert(len(hdrT["hk"]) == 1, "C02+C15.k-header-target-set-before-headers-are-signalled")
		}
		for {
			m := &wrapperspb.BytesValue{}
			if e := st.RecvMsg(m); e != nil {
				final = e
				break
			}
			got = append(got, m.Value)
		}
		trailers = st.Trailer()
		// the call is over for its caller: what it finds in its grpc.Header target now is final
		hdrAtReturn = len(hdrT["hk"])
		readerDone = true
	})
	withCancel := verifParam("cancel") == 1
	if withCancel {
		verifGo("canceller", func() { st.cancel() })
	}
	verifDrain()
	verifAssert(readerDone, "C04+C07.k-reader-always-released")
	if !readerDone {
		return
	}
	h := st.done.Load()
	verifAssert(h != nil && final != nil, "C02.k-finished")
	byPeer := final == io.EOF || (code != 0 && !errors.Is(final, context.Canceled) && len(trailers) > 0)
	if final == io.EOF {
		verifCover("k-clean-end")
		verifAssert(code == 0, "C02.k-eof-only-for-ok")
		verifAssert(len(got) == 1, "C01+C07.k-ok-means-every-message-delivered")
	}
	if byPeer {
		verifAssert(len(trailers["tk"]) == 1, "C02+C15.k-trailers-visible-after-terminal-result")
	} else {
		verifCover("k-cancel-won")
		verifAssert(withCancel, "C07.k-cancel-outcome-only-when-cancelled")
		verifAssert(len(trailers) == 0, "C07.k-no-mixture-of-cancel-and-trailers")
	}
	verifAssert(len(got) <= 1, "C01.k-no-duplicate-message")
	// a call-option target belongs to the caller again once the call has returned its terminal result:
	// the library does not write to it afterwards (a late write is a race with the caller's reads)
	verifAssert(len(hdrT["hk"]) == hdrAtReturn, "C02+C15.k-header-target-not-written-after-the-terminal-result")
	_, still := c.streams[st.streamID]
	verifAssert(!still, "C14.k-finished-rpc-leaves-table")
}

// K-FIN-SRV (C01 C02 C04 C07 C13 C14 C15): a streaming handler (Recv, Send,
// return) || the receive loop delivering a request, then a half-close or a
// cancel frame || optionally the deadline firing.
func verifK_FinishServer() {
	car := &vSrvCarrier{ctx: context.Background(), endErr: io.EOF}
	svr := &tunnelServer{stream: car, streams: map[int64]*tunnelServerStream{}, lastSeen: 9, tunnelOpts: &tunnelOpts{}}
	ctx, cancel := context.WithCancel(context.Background())
	st := &tunnelServerStream{ctx: ctx, cancel: cancel, svr: svr, streamID: 9, method: "a/s", stream: car,
		isClientStream: true, isServerStream: true}
	st.sender = newSender(ctx, 100, func(data []byte, totalSize uint32, first bool) error {
		return car.Send(&tunnelpb.ServerToClient{StreamId: 9, Frame: &tunnelpb.ServerToClient_ResponseMessage{
			ResponseMessage: &tunnelpb.MessageData{Size: totalSize, Data: data}}})
	})
	st.receiver = newReceiver[tunnelpb.ClientToServerFrame](func(f tunnelpb.ClientToServerFrame) uint {
		if m, ok := f.(*tunnelpb.ClientToServer_RequestMessage); ok {
			return uint(len(m.RequestMessage.Data))
		}
		return 0
	}, func(uint32) {}, initialWindowSize)
	svr.streams[9] = st
	ending := verifChoice("ending", 3) // 0 half-close, 1 cancel frame, 2 deadline
	var recvErr, sendErr error
	gotReq := 0
	returned := false
	desc := &grpc.StreamDesc{StreamName: "s", ClientStreams: true, ServerStreams: true, Handler: func(srv any, ss grpc.ServerStream) error {
		for {
			if e := ss.RecvMsg(&wrapperspb.BytesValue{}); e != nil {
				recvErr = e
				break
			}
			gotReq++
		}
		sendErr = ss.SendMsg(&wrapperspb.BytesValue{Value: []byte{1}})
		returned = true
		return nil
	}}
	verifGo("handler", func() { st.serveStream(desc, &vSvcImpl{"a"}) })
	verifGo("recv-loop", func() {
		w := verifWire([]byte{5})
		st.acceptClientFrame(&tunnelpb.ClientToServer_RequestMessage{RequestMessage: &tunnelpb.MessageData{Size: uint32(len(w)), Data: w}})
		switch ending {
		case 0:
			st.acceptClientFrame(&tunnelpb.ClientToServer_HalfClose{})
		case 1:
			st.acceptClientFrame(&tunnelpb.ClientToServer_Cancel{})
		}
	})
	if ending == 2 {
		verifGo("deadline", func() { st.cancel() })
	}
	verifDrain()
	verifAssert(returned, "C04+C07.k-handler-always-returns")
	if !returned {
		return
	}
	if ending == 0 {
		verifCover("k-srv-clean")
		verifAssert(recvErr == io.EOF && gotReq == 1, "C01.k-handler-sees-all-requests-then-eof")
		verifAssert(sendErr == nil, "C01.k-response-accepted")
	} else {
		verifAssert(recvErr != nil, "C01+C07.k-terminated-recv-is-an-error")
		verifAssert(gotReq <= 1, "C01.k-no-duplicate-request")
	}
	nclose, nhdr, nmsg := 0, 0, 0
	for i, f := range car.sent {
		switch f.Frame.(type) {
		case *tunnelpb.ServerToClient_CloseStream:
			nclose++
			if ending == 0 {
				verifAssert(i == len(car.sent)-1, "C13.k-close-is-last")
			}
		case *tunnelpb.ServerToClient_ResponseHeaders:
			nhdr++
			if ending == 0 {
				verifAssert(i == 0, "C02+C13.k-headers-first")
			}
		case *tunnelpb.ServerToClient_ResponseMessage:
			nmsg++
		}
	}
	verifAssert(nclose == 1, "C13.k-exactly-one-close-frame")
	verifAssert(nhdr == 1, "C13.k-headers-exactly-once")
	_, still := svr.streams[9]
	verifAssert(!still, "C14.k-stream-leaves-table")
	verifAssert(ctx.Err() != nil, "C04+C14.k-handler-context-cancelled")
	verifAssert(!verifMutexHeld(&st.writeMu) && !verifMutexHeld(&st.readMu), "C15.k-stream-locks-released")
}

// K-CLOSE-CLI (C04 C14 C15): Close() of a channel || a caller blocked in
// RecvMsg || a caller blocked in SendMsg on a zero window || a late starter.
func verifK_CloseChannel() {
	car := vNewCliCarrier(context.Background())
	c := vNewCliChannel(car, 0, false)
	c.settings.InitialWindowSize = 0 // the peer grants nothing: senders park
	s1, err1 := c.newStream(context.Background(), true, true, "svc/a")
	s2, err2 := c.newStream(context.Background(), true, true, "svc/b")
	verifAssume(err1 == nil && err2 == nil)
	var rerr, serr, lerr error
	rdone, sdone, ldone := false, false, false
	var late *tunnelClientStream
	// two thread sets (the product of both is outside the bound)
	scenario := verifChoice("scenario", 2)
	if scenario == 0 {
		verifGo("reader", func() {
			rerr = s1.RecvMsg(&wrapperspb.BytesValue{})
			rdone = true
		})
		verifGo("sender", func() {
			serr = s2.SendMsg(&wrapperspb.BytesValue{Value: []byte{1, 2, 3}})
			sdone = true
		})
		ldone, lerr = true, errors.New("n/a")
	} else {
		verifGo("late-starter", func() {
			late, lerr = c.newStream(context.Background(), true, true, "svc/c")
			ldone = true
		})
		rdone, sdone = true, true
		rerr, serr = errors.New("n/a"), errors.New("n/a")
	}
	var cause error
	if verifBool("carrierBroke") {
		cause = errors.New("carrier broke")
	} // else: Close() by the application / a clean end of the carrier
	verifGo("closer", func() { c.close(cause) })
	verifDrain()
	verifAssert(rdone && sdone && ldone, "C04+C05.k-every-blocked-call-returns-after-close")
	if rdone {
		verifAssert(rerr != nil && rerr != io.EOF, "C01+C04.k-blocked-recv-non-ok")
	}
	if sdone {
		verifAssert(serr != nil, "C04.k-blocked-send-non-ok")
	}
	if ldone {
		if lerr == nil {
			// it got in before the close: then the close ended it
			verifCover("k-late-starter-won")
			verifAssert(late.ctx.Err() != nil, "C04.k-rpc-started-before-close-is-cancelled")
		} else {
			verifCover("k-late-starter-refused")
		}
	}
	// (in every case the in-flight calls above must have ended non-OK: a tunnel that goes away,
	// even cleanly, must never look like a normal end of the RPC - C01: messages may be missing)
	verifAssert(c.Err() == cause && !vChanOpenRO(c.Done()), "C04.k-err-and-done")
	verifAssert(len(c.streams) == 0, "C14.k-table-empty-after-close")
	verifAssert(!verifMutexHeld(&c.mu) && !verifMutexHeld(&c.streamCreation), "C15.k-channel-locks-released")
}

// K-FLOW (C01 C05 C06 C15): the real flow-controlled sender and the real
// receiver composed through a transport: sender || data transport (-> accept)
// || consuming application (dequeue) || credit transport (-> updateWindow), with
// a small window so that a message needs several window refills. A conforming
// sender is never rejected, nothing is lost or reordered, nobody is left
// parked, and once everything has been read the whole window is available again.
func verifK_Flow() {
	W := uint32(verifParam("window"))
	msg := verifBytes("msg", verifParam("maxlen"))
	wire := make(chan vframe, 64)
	credits := make(chan uint32, 64)
	ctx, cancel := context.WithCancel(context.Background())
	defer cancel()
	var inFlight, queuedOrRead uint64
	rcv := newReceiver[vframe](func(f vframe) uint { return uint(len(f.data)) }, func(c uint32) { credits <- c }, W)
	snd := newSender(ctx, W, func(d []byte, total uint32, first bool) error {
		inFlight += uint64(len(d))
		// C06: never more than one window of un-credited data out
		verifAssert(inFlight <= uint64(W), "C06.k-flow-uncredited-bytes-within-window")
		wire <- vframe{d, total, first}
		return nil
	})
	ds := snd.(*defaultSender)
	fr := rcv.(*defaultReceiver[vframe])
	var sendErr error
	var delivered []byte
	frames := 0
	sdone, cdone := false, false
	verifGo("sender", func() {
		sendErr = snd.send(msg)
		sdone = true
		close(wire)
	})
	verifGo("data-transport", func() {
		for f := range wire {
			err := rcv.accept(f)
			verifAssert(err == nil, "C05+C06.k-flow-conforming-sender-never-rejected")
			queuedOrRead += uint64(len(f.data))
		}
		rcv.close() // the sender is done: half-close
	})
	verifGo("application", func() {
		for {
			f, ok := rcv.dequeue()
			if !ok {
				break
			}
			verifAssert(f.first == (frames == 0) && f.size == uint32(len(msg)), "C01+C13.k-flow-frame-labels")
			delivered = append(delivered, f.data...)
			frames++
		}
		cdone = true
		close(credits)
	})
	verifGo("credit-transport", func() {
		for c := range credits {
			inFlight -= uint64(c)
			snd.updateWindow(c)
		}
	})
	verifDrain()
	verifAssert(sdone && cdone, "C05.k-flow-nobody-left-parked")
	if !(sdone && cdone) {
		return
	}
	verifAssert(sendErr == nil, "C05.k-flow-send-completes")
	verifAssertBytesEq(delivered, msg, "C01.k-flow-message-delivered-intact")
	if frames > 2 {
		verifCover("k-flow-refilled")
	}
	verifAssert(ds.currentWindow.Load() == W, "C05.k-flow-whole-sender-window-available-again")
	verifAssert(fr.currentWindow == W, "C05+C06.k-flow-whole-receiver-window-available-again")
	verifAssert(!verifMutexHeld(&ds.mu) && !verifMutexHeld(&fr.mu), "C15.k-flow-locks-released")
}

// K-REG (C12 C15): enumeration, routing and readiness queries concurrent with
// tunnels registering and leaving: every answer is a snapshot of some moment
// (no tunnel twice, nothing that never was a member), routing only goes to
// tunnels that were registered, and at the end the registry is exactly the set
// of tunnels still open. With the happens-before detector on (C15) every access
// to the registry's slice, cursor and latch by the five threads is checked.
func verifK_Registry() {
	h := NewTunnelServiceHandler(TunnelServiceHandlerOptions{})
	t0, t1, t2 := &tunnelChannel{}, &tunnelChannel{}, &tunnelChannel{}
	known := func(x any) bool {
		return x == any(t0) || x == any(t1) || x == any(t2)
	}
	// two tunnels are up (t0 first: it is not the last slice element when it leaves)
	for _, t := range []*tunnelChannel{t0, t1} {
		h.reverse.add(t, "k")
		h.reverseChannelsForKey("k").add(t, "k")
	}
	verifGo("close-t0", func() { h.unregister(t0) })
	verifGo("open-t2", func() {
		h.reverse.add(t2, "k")
		h.reverseChannelsForKey("k").add(t2, "k")
	})
	verifGo("enumerate", func() {
		all := h.AllReverseTunnels()
		verifAssert(len(all) >= 1 && len(all) <= 3, "C12.k-enumeration-size-is-a-possible-one")
		for i := range all {
			verifAssert(known(all[i]), "C12.k-enumeration-lists-only-tunnels")
			for j := 0; j < i; j++ {
				verifAssert(all[i] != all[j], "C12+C15.k-enumeration-lists-no-tunnel-twice")
			}
		}
		has1 := false
		for i := range all {
			if all[i] == TunnelChannel(t1) {
				has1 = true
			}
		}
		verifAssert(has1, "C12.k-enumeration-contains-the-tunnel-that-stays")
	})
	verifGo("route", func() {
		for i := 0; i < 2; i++ {
			p := h.pickKey("k")
			verifAssert(p != nil && known(p), "C12.k-routing-finds-an-open-tunnel")
			verifAssert(h.reverse.ready() && h.keyIsReady("k"), "C12.k-ready-while-a-tunnel-is-up")
		}
	})
	verifDrain()
	all := h.AllReverseTunnels()
	verifAssert(len(all) == 2 && ((all[0] == TunnelChannel(t1) && all[1] == TunnelChannel(t2)) || (all[0] == TunnelChannel(t2) && all[1] == TunnelChannel(t1))), "C12+C14.k-registry-is-exactly-the-open-tunnels")
	p1, p2 := h.pickKey("k"), h.pickKey("k")
	verifAssert(p1 != nil && p2 != nil && p1 != p2 && p1 != grpc.ClientConnInterface(t0) && p2 != grpc.ClientConnInterface(t0), "C12.k-closed-tunnel-not-routed-to")
	verifAssert(!verifMutexHeld(&h.mu) && !verifMutexHeld(&h.reverse.mu), "C15.k-registry-locks-released")
	verifCover("k-reg-done")
}

// K-REGCLOSE (C12 C14 C15): a registered reverse tunnel closes itself (its tear-down hook unregisters
// it) while another goroutine routes an RPC through the pooled channel and a third asks for the list:
// no deadlock whatever the lock order of the two sides, routing finds an open tunnel or none, and at the
// end the registry holds exactly the tunnel that stayed.
func verifK_RegistryClose() {
	h := NewTunnelServiceHandler(TunnelServiceHandlerOptions{})
	mk := func() (*tunnelChannel, *vCliCarrier) {
		car := vNewCliCarrier(context.Background())
		car.hold = true
		c := vNewCliChannel(car, 0, false)
		c.tearDown = h.unregister
		h.reverse.add(c, "k")
		h.reverseChannelsForKey("k").add(c, "k")
		return c, car
	}
	leaving, _ := mk()
	staying, _ := mk()
	routed, listed := false, false
	var rerr error
	verifGo("close", func() { leaving.Close() })
	verifGo("route", func() {
		// what multiChannel.NewStream does, twice: round robin gets to both tunnels
		for i := 0; i < 2; i++ {
			if p := h.reverse.pick(); p != nil {
				if tc, ok := p.(*tunnelChannel); ok {
					_, rerr = tc.newStream(context.Background(), true, true, "a/s")
				}
			}
		}
		routed = true
	})
	verifGo("list", func() {
		all := h.AllReverseTunnels()
		verifAssert(len(all) >= 1 && len(all) <= 2, "C12.k-regclose-list-is-a-possible-one")
		_ = h.keyIsReady("k")
		listed = true
	})
	verifDrain()
	verifAssert(routed && listed, "C15.k-regclose-nobody-left-parked")
	_ = rerr // an RPC routed to the tunnel that was just closing fails ("channel is closed"): legal
	all := h.AllReverseTunnels()
	verifAssert(len(all) == 1 && all[0] == TunnelChannel(staying), "C12+C14.k-regclose-registry-is-exactly-the-tunnel-that-stayed")
	verifAssert(h.pickKey("k") == grpc.ClientConnInterface(staying), "C12.k-regclose-keyed-routing-follows")
	verifAssert(!verifMutexHeld(&h.mu) && !verifMutexHeld(&h.reverse.mu) && !verifMutexHeld(&leaving.mu) && !verifMutexHeld(&staying.mu), "C15.k-regclose-locks-released")
	verifCover("k-regclose-done")
	staying.Close()
	verifDrain()
}
