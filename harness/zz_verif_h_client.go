package grpctunnel

import (
	"context"
	"errors"
	"io"
	"math"

	"google.golang.org/grpc"
	"google.golang.org/grpc/credentials"
	"google.golang.org/grpc/metadata"
	"google.golang.org/grpc/status"
	spb "google.golang.org/genproto/googleapis/rpc/status"

	"github.com/jhump/grpctunnel/tunnelpb"
)

// vCliCarrier stands in for the gRPC stream that carries the tunnel (client
// end). Recv yields the script; afterwards it either parks until the harness
// hangs up (hold=true) or lets library goroutines quiesce and ends with endErr.
type vCliCarrier struct {
	ctx      context.Context
	script   []*tunnelpb.ServerToClient
	pos      int
	endErr   error
	hold     bool
	failNow  bool
	hangup   chan struct{}
	sent     []*tunnelpb.ClientToServer
	sentBy   []int
	failAt   int // index of the Send call that fails (-1: never)
	sendErr  error
	sends    int
	drainBlk int
	onSend   func(m *tunnelpb.ClientToServer) // runs when a frame has reached the wire
}

func vNewCliCarrier(ctx context.Context) *vCliCarrier {
	return &vCliCarrier{ctx: ctx, endErr: io.EOF, hangup: make(chan struct{}), failAt: -1, sendErr: errors.New("carrier send failed")}
}

func (c *vCliCarrier) Context() context.Context { return c.ctx }

func (c *vCliCarrier) Send(m *tunnelpb.ClientToServer) error {
	c.sentBy = append(c.sentBy, verifThreadID())
	c.sends++
	if c.sends-1 == c.failAt {
		return c.sendErr
	}
	c.sent = append(c.sent, m)
	if c.onSend != nil {
		c.onSend(m)
	}
	return nil
}

func (c *vCliCarrier) Recv() (*tunnelpb.ServerToClient, error) {
	if c.pos < len(c.script) {
		c.pos++
		return c.script[c.pos-1], nil
	}
	if c.failNow {
		return nil, c.endErr
	}
	if c.hold {
		<-c.hangup
		return nil, c.endErr
	}
	b0 := verifBlockedCount()
	verifDrain()
	c.drainBlk += verifBlockedCount() - b0
	return nil, c.endErr
}

type vRcvMonS2C struct {
	accepted   []tunnelpb.ServerToClientFrame
	closes     int
	cancels    int
	rejectWith error
}

func (r *vRcvMonS2C) accept(f tunnelpb.ServerToClientFrame) error {
	r.accepted = append(r.accepted, f)
	return r.rejectWith
}
func (r *vRcvMonS2C) close()  { r.closes++ }
func (r *vRcvMonS2C) cancel() { r.cancels++ }
func (r *vRcvMonS2C) dequeue() (tunnelpb.ServerToClientFrame, bool) {
	return nil, false
}

type vCliBystander struct {
	id        int64
	st        *tunnelClientStream
	snd       *vSndMon
	rcv       *vRcvMonS2C
	ctx       context.Context
	hdrTarget metadata.MD
	tlrTarget metadata.MD
}

func vAddCliStream(c *tunnelChannel, id int64) *vCliBystander {
	ctx, cancel := context.WithCancel(c.ctx)
	b := &vCliBystander{id: id, snd: &vSndMon{}, rcv: &vRcvMonS2C{}, ctx: ctx}
	b.st = &tunnelClientStream{ctx: ctx, cancel: cancel, ch: c, streamID: id, method: "a/s", stream: c.stream,
		isClientStream: true, isServerStream: true, sender: b.snd, receiver: b.rcv,
		gotHeadersSignal: make(chan struct{}), doneSignal: make(chan struct{}),
		headersTargets: []*metadata.MD{&b.hdrTarget}, trailersTargets: []*metadata.MD{&b.tlrTarget}}
	c.streams[id] = b.st
	return b
}

func vChanOpen(ch chan struct{}) bool {
	select {
	case <-ch:
		return false
	default:
		return true
	}
}

func (b *vCliBystander) untouched(c *tunnelChannel, tag string) {
	verifAssert(len(b.snd.updates) == 0 && b.snd.msgs == 0, "C01+C03.cli-bystander-sender-untouched-"+tag)
	verifAssert(len(b.rcv.accepted) == 0 && b.rcv.closes == 0 && b.rcv.cancels == 0, "C01+C03.cli-bystander-receiver-untouched-"+tag)
	verifAssert(b.st.done.Load() == nil, "C03+C07.cli-bystander-not-finished-"+tag)
	verifAssert(vChanOpen(b.st.doneSignal) && vChanOpen(b.st.gotHeadersSignal), "C02+C03.cli-bystander-signals-open-"+tag)
	verifAssert(b.hdrTarget == nil && b.tlrTarget == nil, "C02+C03.cli-bystander-targets-untouched-"+tag)
}

func vNewCliChannel(car *vCliCarrier, L int64, created bool) *tunnelChannel {
	ctx, cancel := context.WithCancel(car.ctx)
	return &tunnelChannel{stream: car, ctx: ctx, cancel: cancel, tunnelOpts: &tunnelOpts{},
		streams: map[int64]*tunnelClientStream{}, awaitSettings: make(chan struct{}),
		lastStreamID: L, streamCreated: created, useRevision: tunnelpb.ProtocolRevision_REVISION_ONE,
		settings: &tunnelpb.Settings{InitialWindowSize: initialWindowSize}}
}

// S-CLI-STEP (C01 C02 C03 C05 C06 C07 C09 C14): the client's receive loop
// processing one frame of any kind with any id (optionally followed by a
// second frame for the same id) from an arbitrary valid channel state with up
// to two live streams whose sender/receiver are monitors.
func verifH_CliFrame() {
	car := vNewCliCarrier(context.Background())
	L := verifI64("lastID")
	created := verifBool("created")
	verifAssume(L >= 0)
	if !created {
		verifAssume(L == 0)
	}
	c := vNewCliChannel(car, L, created)
	var bys []*vCliBystander
	nby := 0
	if created {
		nby = verifChoice("streams", 3)
	}
	for i := 0; i < nby; i++ {
		id := verifI64("sid")
		verifAssume(id >= 1 && id <= L)
		if i > 0 {
			verifAssume(id != bys[0].id)
		}
		bys = append(bys, vAddCliStream(c, id))
	}
	overrun := errors.New("window exceeded")
	for _, b := range bys {
		if verifBool("receiverRejects") {
			b.rcv.rejectWith = overrun
		}
	}
	fid := verifI64("fid")
	kind := verifChoice("kind", 7)
	var frame tunnelpb.ServerToClientFrame
	var upd uint32
	var code int32
	hmd := map[string]*tunnelpb.Metadata_Values{"hk": {Val: []string{"h1", "h2"}}}
	tmd := map[string]*tunnelpb.Metadata_Values{"tk": {Val: []string{"t1"}}}
	switch kind {
	case 0:
		frame = &tunnelpb.ServerToClient_ResponseMessage{ResponseMessage: &tunnelpb.MessageData{Size: verifU32("size"), Data: verifBytes("data", 8)}}
	case 1:
		frame = &tunnelpb.ServerToClient_MoreResponseData{MoreResponseData: verifBytes("data", 8)}
	case 2:
		frame = &tunnelpb.ServerToClient_ResponseHeaders{ResponseHeaders: &tunnelpb.Metadata{Md: hmd}}
	case 3:
		code = verifI32("code")
		cs := &tunnelpb.CloseStream{Status: &spb.Status{Code: code, Message: "m"}}
		if verifBool("withTrailers") {
			cs.ResponseTrailers = &tunnelpb.Metadata{Md: tmd}
		}
		frame = &tunnelpb.ServerToClient_CloseStream{CloseStream: cs}
	case 4:
		upd = verifU32("update")
		frame = &tunnelpb.ServerToClient_WindowUpdate{WindowUpdate: upd}
	case 5:
		frame = &tunnelpb.ServerToClient_Settings{Settings: &tunnelpb.Settings{}}
	case 6:
		frame = nil
	}
	car.script = []*tunnelpb.ServerToClient{{StreamId: fid, Frame: frame}}
	// a second frame for the same id: headers again / a late message after close
	second := verifChoice("second", 3)
	switch second {
	case 1:
		car.script = append(car.script, &tunnelpb.ServerToClient{StreamId: fid, Frame: &tunnelpb.ServerToClient_ResponseHeaders{
			ResponseHeaders: &tunnelpb.Metadata{Md: map[string]*tunnelpb.Metadata_Values{"other": {Val: []string{"x"}}}}}})
	case 2:
		car.script = append(car.script, &tunnelpb.ServerToClient{StreamId: fid, Frame: &tunnelpb.ServerToClient_ResponseMessage{
			ResponseMessage: &tunnelpb.MessageData{Size: 1, Data: []byte{7}}}})
	}

	c.recvLoop()
	loopBlocks := verifBlockedCount() - car.drainBlk
	verifDrain()

	for _, th := range car.sentBy {
		verifAssert(th != 0, "C03+C05.cli-no-carrier-send-on-receive-loop")
	}
	verifAssert(loopBlocks == 0, "C03.cli-receive-loop-never-blocks")
	var target *vCliBystander
	for _, b := range bys {
		if b.id == fid {
			target = b
		} else {
			b.untouched(c, "frame")
		}
	}
	verifAssert(c.finished, "C04.cli-carrier-end-closes-channel")
	tunnelError := c.err != io.EOF
	if target == nil {
		if created && fid <= L {
			verifCover("late-frame")
			verifAssert(!tunnelError, "C07+C09.cli-late-frame-ignored")
			verifAssert(len(car.sent) == 0, "C07.cli-late-frame-no-reply")
		} else {
			verifCover("never-created")
			verifAssert(tunnelError, "C09+C11.cli-frame-for-unknown-id-ends-tunnel")
		}
		return
	}
	verifCover("for-live-stream")
	verifAssert(!tunnelError, "C03+C09.cli-stream-frame-keeps-tunnel")
	st := target.st
	finished := false
	var wantErrIsEOF bool
	switch kind {
	case 0, 1:
		n := 1
		if second == 2 && target.rcv.rejectWith == nil {
			n = 2
		}
		verifAssert(len(target.rcv.accepted) >= 1 && target.rcv.accepted[0] == frame, "C01.cli-data-frame-reaches-its-stream-unchanged")
		if target.rcv.rejectWith != nil {
			verifCover("overrun")
			finished = true
			h := st.done.Load()
			verifAssert(h != nil && h.error == overrun, "C06+C09.cli-overrun-fails-that-rpc")
		} else {
			verifAssert(len(target.rcv.accepted) == n, "C01.cli-every-data-frame-queued-once")
		}
	case 2:
		verifAssert(st.gotHeaders && !vChanOpen(st.gotHeadersSignal), "C02.cli-headers-published")
		verifAssert(len(st.headers["hk"]) == 2 && st.headers["hk"][0] == "h1" && st.headers["hk"][1] == "h2", "C02.cli-headers-exact")
		verifAssert(len(target.hdrTarget["hk"]) == 2 && target.hdrTarget["hk"][1] == "h2", "C02.cli-header-target-set")
		verifAssert(len(st.headers) == 1, "C02.cli-later-headers-ignored")
	case 3:
		finished = true
		wantErrIsEOF = code == 0
		h := st.done.Load()
		verifAssert(h != nil, "C02.cli-close-finishes")
		if h != nil {
			if wantErrIsEOF {
				verifAssert(h.error == io.EOF, "C02.cli-ok-status-is-eof")
			} else {
				verifCover("error-status")
				stt, isStatus := status.FromError(h.error)
				verifAssert(isStatus && int32(stt.Code()) == code && stt.Message() == "m", "C02.cli-status-exact")
			}
		}
	case 4:
		verifAssert(len(target.snd.updates) == 1 && target.snd.updates[0] == upd, "C05.cli-window-update-reaches-its-sender")
	case 5, 6:
		finished = true
		h := st.done.Load()
		verifAssert(h != nil && h.error != io.EOF, "C09.cli-bad-frame-fails-that-rpc")
	}
	if !finished && second == 2 && target.rcv.rejectWith != nil {
		// the second frame (a message) overran the window: that fails this RPC
		finished = true
	}
	if finished {
		verifAssert(!vChanOpen(st.doneSignal) && !vChanOpen(st.gotHeadersSignal), "C02+C04.cli-finish-closes-signals")
		_, still := c.streams[fid]
		verifAssert(!still, "C14.cli-finished-stream-leaves-table")
		verifAssert(target.ctx.Err() != nil, "C07+C14.cli-finished-stream-context-cancelled")
		verifAssert(target.rcv.closes == 1, "C01.cli-finish-closes-receiver")
		if kind == 3 {
			if st.trailers != nil {
				verifAssert(len(st.trailers["tk"]) == 1 && st.trailers["tk"][0] == "t1", "C02.cli-trailers-exact")
				verifAssert(len(target.tlrTarget["tk"]) == 1, "C02.cli-trailer-target-set")
			}
		}
		// a frame after the finish is discarded without effect
		if second == 2 {
			verifAssert(len(target.rcv.accepted) <= 1, "C07.cli-frame-after-finish-discarded")
		}
	} else {
		verifAssert(st.done.Load() == nil, "C03.cli-stream-stays-live")
	}
	verifAssert(verifLiveGoroutines() == 0, "C14.cli-no-goroutine-left")
}

// ---------------------------------------------------------------------------

// S-NEG (C11 C09 C04): the settings exchange. Any first frame (any id, any
// kind, any revision list of length 0..n with arbitrary values, any window),
// or a carrier failure, with and without the peer advertising negotiation,
// flow control enabled or disabled locally.
func verifH_Negotiate() {
	car := vNewCliCarrier(context.Background())
	car.hold = true
	serverSends := verifBool("serverSendsSettings")
	opts := &tunnelOpts{disableFlowControl: verifBool("disableFlowControl")}
	shape := verifChoice("first", 5)
	var revs []tunnelpb.ProtocolRevision
	fid := verifI64("fid")
	win := verifU32("window")
	switch shape {
	case 0: // a settings frame
		n := verifChoice("nrevs", verifParam("maxrevs")+1)
		for i := 0; i < n; i++ {
			revs = append(revs, tunnelpb.ProtocolRevision(verifI32("rev")))
		}
		car.script = []*tunnelpb.ServerToClient{{StreamId: fid, Frame: &tunnelpb.ServerToClient_Settings{
			Settings: &tunnelpb.Settings{SupportedProtocolRevisions: revs, InitialWindowSize: win}}}}
	case 1: // some other frame first
		car.script = []*tunnelpb.ServerToClient{{StreamId: fid, Frame: &tunnelpb.ServerToClient_WindowUpdate{WindowUpdate: win}}}
	case 2: // empty oneof
		car.script = []*tunnelpb.ServerToClient{{StreamId: fid}}
	case 3: // the carrier fails before anything arrives
		car.failNow = true
		car.endErr = errors.New("carrier failed")
	case 4: // the peer ends the stream cleanly before sending anything
		car.failNow = true
		car.endErr = io.EOF
	}
	if !serverSends && shape < 3 {
		// towards a legacy peer nothing is consumed for negotiation
		car.script = nil
	}
	tornDown := 0
	c := newTunnelChannel(car, nil, serverSends, opts, func(*tunnelChannel) { tornDown++ })
	// reaching this point at all is "does not hang" (a hang is reported as DEADLOCK)
	c.mu.RLock()
	finished, cerr, useRev, settings := c.finished, c.err, c.useRevision, c.settings
	c.mu.RUnlock()

	if !serverSends {
		verifCover("legacy-peer")
		verifAssert(useRev == tunnelpb.ProtocolRevision_REVISION_ZERO, "C11.legacy-peer-revision-zero")
		verifAssert(settings == nil, "C11.legacy-peer-no-settings")
		if shape < 3 {
			verifAssert(!finished, "C11.legacy-peer-channel-usable")
		}
	} else {
		// reference: highest revision both support; an empty list means revision zero
		local1 := !opts.disableFlowControl
		best := tunnelpb.ProtocolRevision(-1)
		eff := revs
		if len(eff) == 0 {
			eff = []tunnelpb.ProtocolRevision{tunnelpb.ProtocolRevision_REVISION_ZERO}
		}
		for _, r := range eff {
			if r == tunnelpb.ProtocolRevision_REVISION_ZERO || (r == tunnelpb.ProtocolRevision_REVISION_ONE && local1) {
				if r > best {
					best = r
				}
			}
		}
		valid := shape == 0 && fid == -1 && best >= 0
		if valid {
			verifCover("negotiated")
			verifAssert(!finished, "C11.valid-settings-channel-usable")
			verifAssert(useRev == best, "C11.highest-common-revision")
			verifAssert(settings != nil && settings.InitialWindowSize == win, "C06+C11.peer-window-recorded")
			if len(revs) == 0 {
				verifCover("empty-list")
			}
		} else {
			verifCover("refused")
			verifAssert(finished && cerr != nil && cerr != io.EOF, "C04+C09+C11.bad-settings-fail-the-tunnel")
			if shape == 4 {
				verifCover("ended-before-settings")
			}
			verifAssert(c.Err() != nil, "C04+C11.bad-settings-err-visible")
			verifAssert(!vChanOpenRO(c.Done()), "C04+C11.bad-settings-done-closed")
			verifAssert(tornDown >= 1, "C04.bad-settings-teardown-ran")
		}
	}
	verifAssert(len(car.sent) == 0, "C11+C13.client-sends-nothing-during-negotiation")
	close(car.hangup)
	verifDrain()
	verifAssert(verifLiveGoroutines() == 0, "C14.negotiation-no-goroutine-left")
}

func vChanOpenRO(ch <-chan struct{}) bool {
	select {
	case <-ch:
		return false
	default:
		return true
	}
}

// ---------------------------------------------------------------------------

type vCreds struct {
	secure bool
	pairs  map[string]string
	err    error
}

func (c *vCreds) GetRequestMetadata(ctx context.Context, uri ...string) (map[string]string, error) {
	return c.pairs, c.err
}
func (c *vCreds) RequireTransportSecurity() bool { return c.secure }

var _ credentials.PerRPCCredentials = (*vCreds)(nil)

// S-ALLOC (C02 C04 C08 C11 C13 C14 C17): newStream from an arbitrary valid
// channel state, for every combination of call options and outgoing metadata,
// with the carrier failing or not.
func verifH_NewStream() {
	car := vNewCliCarrier(context.Background())
	L := verifI64("lastID")
	verifAssume(L >= 0)
	c := vNewCliChannel(car, L, L > 0)
	c.tunnelMetadata = metadata.MD{"open": {"sesame"}}
	if verifBool("finished") {
		c.finished = true
		c.err = io.EOF
	}
	if verifBool("rev0") {
		c.useRevision = tunnelpb.ProtocolRevision_REVISION_ZERO
		c.settings = nil
	} else {
		c.settings.InitialWindowSize = verifU32("peerWindow")
	}
	nlive := verifChoice("live", 2)
	var by *vCliBystander
	if nlive == 1 && L > 0 {
		id := verifI64("sid")
		verifAssume(id >= 1 && id <= L)
		by = vAddCliStream(c, id)
	}
	ctx := context.Background()
	if verifBool("ctxFromOtherTunnel") {
		// a follow-up RPC issued with the context of an RPC that another tunnel carried
		otherCh := vNewCliChannel(vNewCliCarrier(context.Background()), 0, false)
		ctx = context.WithValue(ctx, tunnelMetadataOutgoingContextKey{}, metadata.MD{"open": {"other"}})
		ctx = context.WithValue(ctx, tunnelChannelContextKey{}, otherCh)
	}
	mdShape := verifChoice("md", 3)
	switch mdShape {
	case 1:
		ctx = metadata.NewOutgoingContext(ctx, metadata.MD{"k": {"v1", "v2"}})
	case 2:
		ctx = metadata.NewOutgoingContext(ctx, metadata.MD{})
	}
	var opts []grpc.CallOption
	var hdr, tlr metadata.MD
	var tc TunnelChannel
	withHdr, withTlr, withTC := verifBool("optHeader"), verifBool("optTrailer"), verifBool("optChannel")
	credShape := verifChoice("creds", 4)
	if withHdr {
		opts = append(opts, grpc.Header(&hdr))
	}
	if withTlr {
		opts = append(opts, grpc.Trailer(&tlr))
	}
	if withTC {
		opts = append(opts, WithTunnelChannel(&tc))
	}
	credErr := errors.New("no token")
	// the credentials may produce a key the caller also set: both must reach the peer
	credKey := "auth"
	if credShape == 1 && mdShape == 1 && verifBool("credKeyCollides") {
		credKey = "k"
	}
	switch credShape {
	case 1:
		opts = append(opts, grpc.PerRPCCredentials(&vCreds{pairs: map[string]string{credKey: "tok"}}))
	case 2:
		opts = append(opts, grpc.PerRPCCredentials(&vCreds{secure: true, pairs: map[string]string{"auth": "tok"}}))
	case 3:
		opts = append(opts, grpc.PerRPCCredentials(&vCreds{err: credErr}))
	}
	if verifBool("sendFails") {
		car.failAt = 0
	}
	cs, ss := verifBool("clientStreams"), verifBool("serverStreams")
	method := "/svc/method"
	// the peer may answer the instant the new_stream frame is on the wire: the receive
	// loop must find the stream then (and not take the frame for one it has disposed of)
	car.onSend = func(m *tunnelpb.ClientToServer) {
		if _, isNew := m.Frame.(*tunnelpb.ClientToServer_NewStream); isNew {
			found, gerr := c.getStream(m.StreamId)
			verifAssert(gerr == nil && found != nil && found.streamID == m.StreamId, "C01+C08.frames-arriving-right-after-new-stream-reach-the-rpc")
		}
	}
	str, err := c.newStream(ctx, cs, ss, method, opts...)
	car.onSend = nil

	if by != nil {
		by.untouched(c, "alloc")
	}
	if c.finished {
		verifCover("closed-channel")
		verifAssert(err != nil && str == nil, "C04.new-rpc-on-closed-channel-fails")
		verifAssert(len(car.sent) == 0 && car.sends == 0, "C04+C13.closed-channel-sends-nothing")
		return
	}
	if L == math.MaxInt64 {
		// every identifier has been used: an error before a wrapped id is handed out
		verifCover("ids-exhausted")
		verifAssert(err != nil && str == nil, "C08.exhaustion-is-an-error")
		verifAssert(len(car.sent) == 0, "C08+C13.exhaustion-sends-nothing")
		return
	}
	if credShape == 2 || credShape == 3 {
		verifCover("creds-refused")
		verifAssert(err != nil && str == nil, "C02.unusable-credentials-fail-the-call")
		verifAssert(len(car.sent) == 0, "C02+C13.unusable-credentials-send-nothing")
		_, leaked := c.streams[L+1]
		_ = leaked
		return
	}
	if car.failAt == 0 {
		verifCover("send-failed")
		verifAssert(err == car.sendErr && str == nil, "C04.carrier-failure-reported")
		_, still := c.streams[L+1]
		verifAssert(!still, "C14.failed-start-leaves-no-table-entry")
		verifDrain()
		// the peer never saw a new_stream for it: nothing else may be emitted for that id
		verifAssert(len(car.sent) == 0, "C03+C07+C08+C13.no-frame-for-an-rpc-that-never-started")
		verifAssert(verifLiveGoroutines() == 0, "C14.failed-start-leaves-no-goroutine")
		return
	}
	verifCover("started")
	verifAssert(err == nil && str != nil, "C08.start-succeeds")
	if str == nil {
		return
	}
	verifAssert(str.streamID == L+1 && str.streamID > L, "C08.next-id-is-greater")
	verifAssert(c.lastStreamID == str.streamID && c.streamCreated, "C08.high-water-mark-advanced")
	verifAssert(c.streams[str.streamID] == str, "C14.started-rpc-in-table")
	if by != nil {
		verifAssert(str.streamID != by.id, "C08.id-distinct-from-live")
	}
	verifAssert(len(car.sent) == 1, "C08+C13.exactly-one-frame-at-start")
	if len(car.sent) == 1 {
		f := car.sent[0]
		ns, isNew := f.Frame.(*tunnelpb.ClientToServer_NewStream)
		verifAssert(isNew && f.StreamId == str.streamID, "C08+C13.first-frame-is-new-stream-with-own-id")
		if isNew {
			verifAssert(ns.NewStream.MethodName == method, "C08.method-name-carried")
			verifAssert(ns.NewStream.ProtocolRevision == c.useRevision, "C11.revision-carried")
			verifAssert(ns.NewStream.InitialWindowSize == initialWindowSize, "C06.advertised-window")
			got := fromProto(ns.NewStream.RequestHeaders)
			wantK := mdShape == 1
			wantAuth := credShape == 1
			n := 0
			if wantK {
				n++
				verifAssert(len(got["k"]) >= 2 && got["k"][0] == "v1" && got["k"][1] == "v2", "C02+C17.outgoing-metadata-carried")
			}
			if wantAuth && credKey == "k" {
				verifCover("creds-key-collides")
				verifAssert(len(got["k"]) == 3 && got["k"][2] == "tok", "C02+C17.per-rpc-credentials-added-to-the-callers-values")
			} else if wantAuth {
				n++
				verifCover("creds-attached")
				verifAssert(len(got["auth"]) == 1 && got["auth"][0] == "tok", "C02.per-rpc-credentials-carried")
			} else if wantK {
				verifAssert(len(got["k"]) == 2, "C02+C17.outgoing-metadata-carried")
			}
			verifAssert(len(got) == n, "C02.no-foreign-metadata")
		}
	}
	// flow control components per negotiated revision
	_, fcS := str.sender.(*defaultSender)
	_, fcR := str.receiver.(*defaultReceiver[tunnelpb.ServerToClientFrame])
	want := c.useRevision == tunnelpb.ProtocolRevision_REVISION_ONE
	verifAssert(fcS == want && fcR == want, "C11.flow-control-iff-revision-one")
	if want {
		verifAssert(str.sender.(*defaultSender).currentWindow.Load() == c.settings.InitialWindowSize, "C06+C11.sender-starts-with-peer-window")
		verifAssert(str.receiver.(*defaultReceiver[tunnelpb.ServerToClientFrame]).currentWindow == initialWindowSize, "C06.receiver-enforces-advertised-window")
	}
	// C17: the RPC's context identifies the tunnel
	verifAssert(TunnelChannelFromContext(str.Context()) == TunnelChannel(c), "C17.channel-from-context")
	om, ok := TunnelMetadataFromOutgoingContext(str.Context())
	verifAssert(ok && len(om["open"]) == 1 && om["open"][0] == "sesame", "C17.opening-metadata-from-context")
	if withTC {
		verifAssert(tc == TunnelChannel(c), "C17.with-tunnel-channel-target")
	}
	verifAssert(str.isClientStream == cs && str.isServerStream == ss, "C16.call-shape-recorded")
	verifAssert((len(str.headersTargets) == 1) == withHdr && (len(str.trailersTargets) == 1) == withTlr, "C02.call-option-targets-registered")
	// the data path labels frames with the stream's own id
	if verifBool("sendOne") {
		if want {
			verifAssume(c.settings.InitialWindowSize >= 4) // enough credit: this step is about labelling, not flow control
		}
		msg := verifBytes("msg", 4)
		_ = str.sender.send(msg)
		if len(car.sent) == 2 {
			f := car.sent[1]
			rm, isMsg := f.Frame.(*tunnelpb.ClientToServer_RequestMessage)
			verifAssert(isMsg && f.StreamId == str.streamID, "C01+C13.data-frame-labelled-with-own-id")
			if isMsg {
				verifAssert(int(rm.RequestMessage.Size) == len(msg), "C01+C13.data-frame-size")
				verifAssertBytesEq(rm.RequestMessage.Data, msg, "C01.data-frame-bytes")
			}
		}
	}
	// ending the caller's context ends the RPC (watcher goroutine), exactly one cancel frame
	n0 := len(car.sent)
	str.cancel()
	verifDrain()
	h := str.done.Load()
	verifAssert(h != nil, "C07.context-end-finishes-rpc")
	_, still := c.streams[str.streamID]
	verifAssert(!still, "C14.cancelled-rpc-leaves-table")
	ncancel := 0
	for _, f := range car.sent[n0:] {
		if _, isC := f.Frame.(*tunnelpb.ClientToServer_Cancel); isC && f.StreamId == str.streamID {
			ncancel++
		}
	}
	verifAssert(ncancel == 1 && len(car.sent) == n0+1, "C01+C07+C13.exactly-one-cancel-frame")
	verifAssert(verifLiveGoroutines() == 0, "C14.new-stream-no-goroutine-left")
}
