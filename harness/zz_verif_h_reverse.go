package grpctunnel

import (
	"context"
	"errors"
	"io"

	"google.golang.org/grpc"
	"google.golang.org/grpc/codes"
	"google.golang.org/grpc/metadata"
	"google.golang.org/grpc/status"

	"github.com/jhump/grpctunnel/tunnelpb"
)

var vKeys = []any{nil, "a", "b", "a"} // the affinity key domain (with a collision)

func vEntryCount(c *reverseChannels, ch *tunnelChannel) int {
	n := 0
	for _, e := range c.chans {
		if e.ch == ch {
			n++
		}
	}
	return n
}

// S-REG (C12 C14): one registry operation from an arbitrary valid registry
// state: n <= N distinct tunnels with keys from a 3-value domain (nil, colliding
// values), any non-negative round-robin cursor, readiness latch closed iff
// non-empty. Representation invariant RR is assumed before and asserted after.
func verifH_Registry() {
	nmax := verifParam("tunnels")
	c := newReverseChannels()
	n := verifChoice("n", nmax+1)
	var members []*tunnelChannel
	for i := 0; i < n; i++ {
		ch := &tunnelChannel{}
		members = append(members, ch)
		c.chans = append(c.chans, reverseChannelEntry{ch: ch, key: vKeys[verifChoice("key", 3)]})
	}
	if n > 0 {
		close(c.avail)
	}
	idx := verifInt("cursor")
	verifAssume(idx >= 0 && idx <= nmax+1)
	c.idx = idx

	rr := func(tag string) {
		for i := range c.chans {
			verifAssert(vEntryCount(c, c.chans[i].ch) == 1, "C12.RR-entries-distinct-"+tag)
		}
		verifAssert(c.idx >= 0, "C12.RR-cursor-non-negative-"+tag)
		verifAssert(vChanOpen(c.avail) == (len(c.chans) == 0), "C12.RR-latch-closed-iff-non-empty-"+tag)
		verifAssert(!verifMutexHeld(&c.mu), "C15.registry-mutex-released-"+tag)
	}

	switch verifChoice("op", 7) {
	case 0: // add a new tunnel
		ch := &tunnelChannel{}
		k := vKeys[verifChoice("newkey", 3)]
		c.add(ch, k)
		verifAssert(len(c.chans) == n+1 && c.chans[n].ch == ch && c.chans[n].key == k, "C12.add-appends-the-tunnel-with-its-key")
		for i, m := range members {
			verifAssert(c.chans[i].ch == m, "C12.add-keeps-the-others")
		}
		rr("add")
	case 1: // remove a member
		if n == 0 {
			return
		}
		verifCover("remove-member")
		j := verifChoice("victim", n)
		wantKey := c.chans[j].key
		k, ok := c.remove(members[j])
		verifAssert(ok && k == wantKey, "C12.remove-reports-the-recorded-key")
		verifAssert(len(c.chans) == n-1 && vEntryCount(c, members[j]) == 0, "C12+C14.remove-deletes-exactly-that-tunnel")
		pos := 0
		for i, m := range members {
			if i == j {
				continue
			}
			verifAssert(c.chans[pos].ch == m, "C12.remove-keeps-the-others-in-order")
			pos++
		}
		rr("remove")
	case 2: // remove a non-member
		latch := c.avail
		k, ok := c.remove(&tunnelChannel{})
		verifAssert(!ok && k == nil && len(c.chans) == n, "C12.remove-of-a-stranger-changes-nothing")
		// ... not the readiness latch either: a WaitForReady that is already waiting holds the old one
		verifAssert(c.avail == latch, "C12.remove-of-a-stranger-keeps-the-readiness-latch-waiters-hold")
		rr("remove-stranger")
	case 3: // n consecutive picks on a stable set use each tunnel exactly once
		if n == 0 {
			verifAssert(c.pick() == nil, "C12.pick-from-empty-is-nil")
			return
		}
		verifCover("round-robin")
		count := make([]int, n)
		for p := 0; p < n; p++ {
			got := c.pick()
			hit := -1
			for i, m := range members {
				if got == grpc.ClientConnInterface(m) {
					hit = i
				}
			}
			verifAssert(hit >= 0, "C12.pick-returns-a-current-member")
			if hit >= 0 {
				count[hit]++
			}
		}
		for i := range count {
			verifAssert(count[i] == 1, "C12.n-picks-use-each-tunnel-exactly-once")
		}
		rr("pick")
	case 4:
		verifAssert(c.ready() == (n > 0), "C12.ready-iff-non-empty")
		rr("ready")
	case 5:
		all := c.allChans()
		verifAssert(len(all) == n, "C12.all-tunnels-enumerates-exactly-the-members")
		for i, m := range members {
			verifAssert(all[i] == TunnelChannel(m), "C12.all-tunnels-enumerates-exactly-the-members")
		}
		// the result is a copy
		if n > 0 {
			all[0] = nil
			verifAssert(c.chans[0].ch == members[0], "C12+C17.all-tunnels-is-a-copy")
		}
		rr("all")
	case 6:
		ctx, cancel := context.WithCancel(context.Background())
		if n > 0 {
			err := c.waitForReady(ctx)
			verifAssert(err == nil, "C12.wait-for-ready-immediate-when-non-empty")
		} else {
			verifCover("wait-blocks")
			woken := verifBool("tunnelArrives")
			verifOnBlock(func() {
				// blocked, as it must be: either a tunnel registers, or the caller gives up
				if woken {
					c.add(&tunnelChannel{}, nil)
				} else {
					cancel()
				}
			})
			err := c.waitForReady(ctx)
			if woken {
				verifAssert(err == nil, "C12.wait-for-ready-released-by-the-next-registration")
			} else {
				verifAssert(err == context.Canceled, "C12.wait-for-ready-honours-the-callers-context")
			}
			verifAssert(verifNative() || verifBlockedCount() >= 1, "C12.wait-for-ready-waits-while-empty")
		}
		cancel()
	}
}

// S-REGKEY (C12): the handler's per-key view. Tunnels are registered the way
// openReverseTunnel does it (global list + the list of their key); then
// KeyAsChannel(k) / AsChannel / unregister are exercised for every key.
func verifH_RegistryKeys() {
	h := NewTunnelServiceHandler(TunnelServiceHandlerOptions{})
	n := verifChoice("n", verifParam("tunnels")+1)
	var chans []*tunnelChannel
	var keys []any
	for i := 0; i < n; i++ {
		ch := &tunnelChannel{}
		k := vKeys[verifChoice("key", 3)]
		h.reverse.add(ch, k)
		h.reverseChannelsForKey(k).add(ch, k)
		chans = append(chans, ch)
		keys = append(keys, k)
	}
	// optionally one of them goes away (tearDown -> unregister)
	gone := -1
	if n > 0 && verifBool("oneCloses") {
		gone = verifChoice("which", n)
		h.unregister(chans[gone])
		verifCover("unregistered")
	}
	q := vKeys[verifChoice("query", 3)]
	want := 0
	for i := range chans {
		if i != gone && keys[i] == q {
			want++
		}
	}
	verifAssert(h.keyIsReady(q) == (want > 0), "C12.key-ready-iff-an-open-tunnel-has-that-key")
	seen := make([]int, n)
	for p := 0; p < want; p++ {
		got := h.pickKey(q)
		hit := -1
		for i, m := range chans {
			if got == grpc.ClientConnInterface(m) {
				hit = i
			}
		}
		verifAssert(hit >= 0 && hit != gone, "C12.key-routes-only-to-open-tunnels")
		if hit >= 0 {
			verifAssert(keys[hit] == q, "C12.key-routes-only-to-tunnels-with-that-key")
			seen[hit]++
		}
	}
	for i := range chans {
		if i != gone && keys[i] == q {
			verifAssert(seen[i] == 1, "C12.key-round-robin-uses-each-matching-tunnel-once")
		}
	}
	if want == 0 {
		verifAssert(h.pickKey(q) == nil, "C12.no-matching-tunnel-no-route")
		mc := h.KeyAsChannel(q)
		err := mc.Invoke(context.Background(), "x/y", nil, nil)
		verifAssert(status.Code(err) == codes.Unavailable, "C12.no-matching-tunnel-is-unavailable")
	}
	all := h.AllReverseTunnels()
	wantAll := n
	if gone >= 0 {
		wantAll--
	}
	verifAssert(len(all) == wantAll, "C12+C14.all-reverse-tunnels-are-exactly-the-open-ones")
	verifAssert(h.AsChannel().Ready() == (wantAll > 0), "C12.as-channel-ready-iff-any-open")
	if gone >= 0 {
		// a second unregister (the handler's deferred removal) changes nothing
		h.unregister(chans[gone])
		verifAssert(len(h.AllReverseTunnels()) == wantAll, "C12.double-removal-harmless")
	}
}

// ---------------------------------------------------------------------------
// gRPC stream doubles for the two reverse-tunnel entry points

type vRevServerStream struct { // grpc.BidiStreamingServer[ServerToClient, ClientToServer] (network server side of a reverse tunnel)
	ctx      context.Context
	hangup   chan struct{}
	endErr   error
	failNow  bool
	sent     []*tunnelpb.ClientToServer
	hdrs     []metadata.MD
	script   []*tunnelpb.ServerToClient
	pos      int
}

func (s *vRevServerStream) Context() context.Context     { return s.ctx }
func (s *vRevServerStream) SetHeader(metadata.MD) error  { return nil }
func (s *vRevServerStream) SendHeader(md metadata.MD) error {
	s.hdrs = append(s.hdrs, md)
	return nil
}
func (s *vRevServerStream) SetTrailer(metadata.MD)   {}
func (s *vRevServerStream) SendMsg(m any) error       { return s.Send(m.(*tunnelpb.ClientToServer)) }
func (s *vRevServerStream) RecvMsg(m any) error       { return errors.New("not used") }
func (s *vRevServerStream) Send(m *tunnelpb.ClientToServer) error {
	s.sent = append(s.sent, m)
	return nil
}
func (s *vRevServerStream) Recv() (*tunnelpb.ServerToClient, error) {
	if s.pos < len(s.script) {
		s.pos++
		return s.script[s.pos-1], nil
	}
	if s.failNow {
		return nil, s.endErr
	}
	<-s.hangup
	return nil, s.endErr
}

// S-OPENREV (C12 C14 C04 C11): one run of the reverse-tunnel handler. While the
// tunnel is open (the handler is parked on Done) it must be registered
// globally and under its key; once it has ended (peer hang-up, carrier
// failure, or already dead when registered) it must be in neither; callbacks
// open-then-close exactly once each.
func verifH_OpenReverse() {
	var events []string
	var theChan TunnelChannel
	keyShape := verifChoice("key", 3)
	opts := TunnelServiceHandlerOptions{
		OnReverseTunnelOpen:  func(ch TunnelChannel) { events = append(events, "open"); theChan = ch },
		OnReverseTunnelClose: func(ch TunnelChannel) { events = append(events, "close") },
		NoReverseTunnels:     verifBool("noReverse"),
	}
	if keyShape > 0 {
		opts.AffinityKey = func(TunnelChannel) any { return vKeys[keyShape] }
	}
	h := NewTunnelServiceHandler(opts)
	// some other tunnel already registered under key "a"
	other := &tunnelChannel{}
	if verifBool("otherTunnel") {
		h.reverse.add(other, "a")
		h.reverseChannelsForKey("a").add(other, "a")
	} else {
		other = nil
	}
	negotiate := verifBool("clientNegotiates")
	ctx := context.Background()
	if negotiate {
		ctx = metadata.NewIncomingContext(ctx, metadata.MD{grpctunnelNegotiateKey: {grpctunnelNegotiateVal}})
	}
	ending := verifChoice("ending", 3) // 0 peer hangs up cleanly, 1 carrier fails, 2 carrier already dead at open
	str := &vRevServerStream{ctx: ctx, hangup: make(chan struct{}), endErr: io.EOF}
	if ending != 0 {
		str.endErr = errors.New("carrier failed")
	}
	if ending == 2 {
		str.failNow = true
	}
	if negotiate {
		str.script = []*tunnelpb.ServerToClient{{StreamId: -1, Frame: &tunnelpb.ServerToClient_Settings{
			Settings: &tunnelpb.Settings{InitialWindowSize: initialWindowSize, SupportedProtocolRevisions: []tunnelpb.ProtocolRevision{0, 1}}}}}
	}
	myKey := vKeys[keyShape]
	inspected := false
	verifOnBlock(func() {
		if inspected {
			return
		}
		inspected = true
		if ending == 2 {
			return
		}
		// quiescent: the tunnel is open and the handler is waiting for it to end
		verifCover("open-quiescent")
		tc := theChan.(*tunnelChannel)
		verifAssert(vEntryCount(h.reverse, tc) == 1, "C12.open-tunnel-in-global-list")
		verifAssert(h.AsChannel().Ready(), "C12.ready-while-open")
		rc := h.reverseByKey[myKey]
		verifAssert(rc != nil && vEntryCount(rc, tc) == 1, "C12.open-tunnel-in-the-list-of-its-key")
		verifAssert(h.keyIsReady(myKey), "C12.key-ready-while-open")
		for k, rck := range h.reverseByKey {
			if k != myKey {
				verifAssert(vEntryCount(rck, tc) == 0, "C12.open-tunnel-in-no-other-key-list")
			}
		}
		verifAssert(len(events) == 1 && events[0] == "open", "C12.open-callback-once-before-close")
		verifAssert(tc.Err() == nil, "C04.open-tunnel-has-no-error")
		verifAssert(len(str.hdrs) == 1 && len(str.hdrs[0][grpctunnelNegotiateKey]) == 1 && str.hdrs[0][grpctunnelNegotiateKey][0] == grpctunnelNegotiateVal, "C11.acceptor-advertises-negotiation")
		want := tunnelpb.ProtocolRevision_REVISION_ZERO
		if negotiate {
			want = tunnelpb.ProtocolRevision_REVISION_ONE
		}
		verifAssert(tc.useRevision == want, "C11.revision-per-peer-negotiate-header")
		close(str.hangup) // now the peer goes away
	})
	err := h.openReverseTunnel(str)
	verifDrain()

	if opts.NoReverseTunnels {
		verifCover("disabled")
		verifAssert(status.Code(err) == codes.Unimplemented, "C12.disabled-is-unimplemented")
		verifAssert(len(events) == 0 && len(h.reverse.chans) == boolToInt(other != nil), "C12.disabled-registers-nothing")
		return
	}
	verifCover("ended")
	wantLeft := boolToInt(other != nil)
	verifAssert(len(h.reverse.chans) == wantLeft, "C09+C12+C14.ended-tunnel-not-in-global-list")
	for _, rck := range h.reverseByKey {
		for _, e := range rck.chans {
			verifAssert(e.ch == other, "C09+C12+C14.ended-tunnel-in-no-key-list")
		}
	}
	verifAssert(h.AsChannel().Ready() == (other != nil), "C12.ready-reflects-remaining-tunnels")
	verifAssert(vChanOpen(h.reverse.avail) == (other == nil), "C12.latch-rearmed-when-last-tunnel-leaves")
	verifAssert(len(events) == 2 && events[0] == "open" && events[1] == "close", "C12.exactly-one-open-then-one-close-callback")
	if ending == 0 {
		verifAssert(err == nil, "C04.clean-end-no-error")
	} else {
		verifAssert(err != nil, "C04.failure-is-reported")
	}
	tc := theChan.(*tunnelChannel)
	verifAssert(!vChanOpenRO(tc.Done()), "C04.ended-tunnel-done")
	verifAssert(verifLiveGoroutines() == 0, "C14.reverse-handler-no-goroutine-left")
}

func boolToInt(b bool) int {
	if b {
		return 1
	}
	return 0
}

// ---------------------------------------------------------------------------

// S-META (C17): the metadata accessors return private copies.
func verifH_Metadata() {
	stored := metadata.MD{"k1": {"a", "b"}, "k2": {"c"}}
	var ctx context.Context
	incoming := verifBool("incoming")
	present := verifBool("present")
	ctx = context.Background()
	if present {
		if incoming {
			ctx = context.WithValue(ctx, tunnelMetadataIncomingContextKey{}, stored)
		} else {
			ctx = context.WithValue(ctx, tunnelMetadataOutgoingContextKey{}, stored)
		}
	}
	get := func() (metadata.MD, bool) {
		if incoming {
			return TunnelMetadataFromIncomingContext(ctx)
		}
		return TunnelMetadataFromOutgoingContext(ctx)
	}
	md, ok := get()
	if !present {
		verifAssert(!ok && len(md) == 0, "C17.absent-metadata")
		verifAssert(TunnelChannelFromContext(ctx) == nil, "C17.absent-channel")
		return
	}
	verifAssert(ok && vSameMD(md, stored), "C17.accessor-returns-the-opening-metadata")
	switch verifChoice("mutation", 5) {
	case 0:
		md["new"] = []string{"x"}
	case 1:
		delete(md, "k1")
	case 2:
		md["k1"][verifChoice("pos", 2)] = "evil"
	case 3:
		md["k1"] = append(md["k1"], "more")
	case 4:
		md["k2"] = md["k2"][:0]
	}
	md2, ok2 := get()
	verifAssert(ok2 && len(md2) == 2 && len(md2["k1"]) == 2 && md2["k1"][0] == "a" && md2["k1"][1] == "b" && len(md2["k2"]) == 1 && md2["k2"][0] == "c",
		"C17.mutating-the-result-does-not-change-what-others-see")
	verifAssert(len(stored["k1"]) == 2 && stored["k1"][0] == "a" && stored["k1"][1] == "b" && len(stored) == 2, "C17.stored-metadata-untouched")
}
