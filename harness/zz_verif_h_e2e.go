package grpctunnel

import (
	"context"
	"errors"
	"io"
	"time"

	"github.com/fullstorydev/grpchan"
	"google.golang.org/grpc"
	"google.golang.org/grpc/codes"
	"google.golang.org/grpc/metadata"
	"google.golang.org/grpc/peer"
	"google.golang.org/grpc/status"
	"google.golang.org/protobuf/types/known/wrapperspb"

	"github.com/jhump/grpctunnel/tunnelpb"
)

// ---------------------------------------------------------------------------
// End-to-end composition: the real RPC-client end (tunnelChannel) and the real
// RPC-server end (tunnelServer) of one tunnel, entered through the public entry
// points (NewChannel().Start + the handler's OpenTunnel, or
// ReverseTunnelServer.Serve + the handler's OpenReverseTunnel), joined by a
// double of the one gRPC stream that carries the tunnel. Nothing between the
// application's calls and the handler's calls is a double except that stream.

// vNet is the carrier: a bidi gRPC stream between the network client (which
// sends U and receives D) and the network server. It is reliable and ordered
// in each direction, buffers without bound (capacity 64 suffices for every
// scenario run over it), ends for the server when the client half-closes,
// ends for the client when the server's handler returns, and ends for both
// when the network client's context is cancelled.
type vNet[U, D any] struct {
	cctx     context.Context // the context the network client opened the stream with
	sctx     context.Context // the stream context the network server's handler sees
	scancel  context.CancelFunc
	up       chan *U
	down     chan *D
	upLog    []*U
	downLog  []*D
	hdr      metadata.MD
	hdrReady chan struct{}
	hdrSent  bool
	srvErr   error
	srvDone  chan struct{}
	upClosed bool
	closes   int
	failSend bool // the carrier breaks: every later Send fails
	strip    bool // a proxy on the way drops the grpctunnel-negotiate header in both directions
	broken   chan struct{} // closed when a Send could not be marshalled: gRPC finishes the stream
	brokeErr error
}

type vNetKey struct{}

// the network client as the network server sees it
type vAddr struct{}

func (vAddr) Network() string { return "vnet" }
func (vAddr) String() string  { return "network-client:1" }

var vNetPeer = &peer.Peer{Addr: vAddr{}}

func vNewNet[U, D any](cctx context.Context, capacity int, strip bool) *vNet[U, D] {
	if capacity == 0 {
		capacity = 64
	}
	n := &vNet[U, D]{cctx: cctx, up: make(chan *U, capacity), down: make(chan *D, capacity), hdrReady: make(chan struct{}), srvDone: make(chan struct{}), broken: make(chan struct{})}
	// what a gRPC server does: the handler's context carries the caller's outgoing metadata as
	// incoming metadata (plus whatever server interceptors put there: vNetKey stands for that)
	sctx := context.WithValue(context.Background(), vNetKey{}, "interceptor-value")
	sctx = peer.NewContext(sctx, vNetPeer)
	if md, ok := metadata.FromOutgoingContext(cctx); ok {
		md = md.Copy()
		if strip {
			delete(md, grpctunnelNegotiateKey)
		}
		sctx = metadata.NewIncomingContext(sctx, md)
	}
	n.strip = strip
	n.sctx, n.scancel = context.WithCancel(sctx)
	return n
}

// breakOn: m cannot be marshalled - the Send fails and the stream is finished for both ends
func (n *vNet[U, D]) unmarshallable(m any) error {
	if vMarshals(m) {
		return nil
	}
	if n.brokeErr == nil {
		n.brokeErr = status.Error(codes.Internal, "grpc: error while marshaling: string field contains invalid UTF-8")
		close(n.broken)
		n.scancel()
	}
	return n.brokeErr
}

// fail: the transport under the carrier stream goes away - every later Send fails, both Recv end with an error
func (n *vNet[U, D]) fail() {
	if n.brokeErr == nil {
		n.failSend = true
		n.brokeErr = status.Error(codes.Unavailable, "transport is closing")
		close(n.broken)
		n.scancel()
	}
}

// finish: the network server's handler returned err
func (n *vNet[U, D]) finish(err error) {
	n.srvErr = err
	if !n.hdrSent {
		n.hdrSent = true
		close(n.hdrReady)
	}
	close(n.srvDone)
	n.scancel()
}

type vNetCli[U, D any] struct{ n *vNet[U, D] }

func (e *vNetCli[U, D]) Header() (metadata.MD, error) {
	select {
	case <-e.n.hdrReady:
		return e.n.hdr, nil
	case <-e.n.cctx.Done():
		return nil, status.FromContextError(e.n.cctx.Err()).Err()
	}
}
func (e *vNetCli[U, D]) Trailer() metadata.MD        { return nil }
func (e *vNetCli[U, D]) Context() context.Context    { return e.n.cctx }
func (e *vNetCli[U, D]) SendMsg(m any) error         { return e.Send(m.(*U)) }
func (e *vNetCli[U, D]) RecvMsg(m any) error         { return errors.New("not used") }
func (e *vNetCli[U, D]) CloseSend() error {
	e.n.closes++
	if !e.n.upClosed {
		e.n.upClosed = true
		close(e.n.up)
	}
	return nil
}
func (e *vNetCli[U, D]) Send(m *U) error {
	if e.n.failSend {
		return errors.New("carrier broken")
	}
	if err := e.n.cctx.Err(); err != nil {
		return status.FromContextError(err).Err()
	}
	select {
	case <-e.n.srvDone:
		return io.EOF // gRPC: the stream has ended, the status comes from Recv
	default:
	}
	if e.n.upClosed {
		return errors.New("send after CloseSend")
	}
	select {
	case <-e.n.broken:
		return e.n.brokeErr
	default:
	}
	if err := e.n.unmarshallable(m); err != nil {
		return err
	}
	e.n.upLog = append(e.n.upLog, m)
	select {
	case e.n.up <- m:
		return nil
	case <-e.n.cctx.Done():
		return status.FromContextError(e.n.cctx.Err()).Err()
	case <-e.n.srvDone:
		return io.EOF
	}
}
func (e *vNetCli[U, D]) Recv() (*D, error) {
	select {
	case m, ok := <-e.n.down:
		if ok {
			return m, nil
		}
		if e.n.srvErr != nil {
			return nil, e.n.srvErr
		}
		return nil, io.EOF
	case <-e.n.broken:
		return nil, e.n.brokeErr
	case <-e.n.cctx.Done():
		return nil, status.FromContextError(e.n.cctx.Err()).Err()
	}
}

type vNetSrv[U, D any] struct{ n *vNet[U, D] }

func (e *vNetSrv[U, D]) Context() context.Context    { return e.n.sctx }
func (e *vNetSrv[U, D]) SetHeader(metadata.MD) error { return nil }
func (e *vNetSrv[U, D]) SendHeader(md metadata.MD) error {
	if !e.n.hdrSent {
		e.n.hdrSent = true
		if e.n.strip {
			md = md.Copy()
			delete(md, grpctunnelNegotiateKey)
		}
		e.n.hdr = md
		close(e.n.hdrReady)
	}
	return nil
}
func (e *vNetSrv[U, D]) SetTrailer(metadata.MD)  {}
func (e *vNetSrv[U, D]) SendMsg(m any) error     { return e.Send(m.(*D)) }
func (e *vNetSrv[U, D]) RecvMsg(m any) error     { return errors.New("not used") }
func (e *vNetSrv[U, D]) Send(m *D) error {
	if e.n.failSend {
		return errors.New("carrier broken")
	}
	select {
	case <-e.n.broken:
		return e.n.brokeErr
	default:
	}
	if err := e.n.sctx.Err(); err != nil {
		return status.FromContextError(err).Err()
	}
	if err := e.n.unmarshallable(m); err != nil {
		return err
	}
	e.n.downLog = append(e.n.downLog, m)
	select {
	case e.n.down <- m:
		return nil
	case <-e.n.sctx.Done():
		return status.FromContextError(e.n.sctx.Err()).Err()
	}
}
func (e *vNetSrv[U, D]) Recv() (*U, error) {
	select {
	case m, ok := <-e.n.up:
		if ok {
			return m, nil
		}
		return nil, io.EOF
	case <-e.n.broken:
		return nil, e.n.brokeErr
	case <-e.n.sctx.Done():
		return nil, status.FromContextError(e.n.sctx.Err()).Err()
	}
}

// the stub the library calls to open the carrier: it does what a gRPC client and
// server do between them - open the stream and run the service's handler on a
// goroutine of its own with the server end of it
type vE2EStub struct {
	tunnelpb.TunnelServiceClient
	svc  tunnelpb.TunnelServiceServer
	fwd  *vNet[tunnelpb.ClientToServer, tunnelpb.ServerToClient]
	rev  *vNet[tunnelpb.ServerToClient, tunnelpb.ClientToServer]
	done bool // the network server's handler has returned
	herr error
	// frames the carrier buffers per direction (0: 64, i.e. never full in these scenarios); a full
	// carrier blocks the sender, as a real transport with its flow control does
	capacity int
	strip    bool
}

func (s *vE2EStub) OpenTunnel(ctx context.Context, opts ...grpc.CallOption) (grpc.BidiStreamingClient[tunnelpb.ClientToServer, tunnelpb.ServerToClient], error) {
	// a client interceptor on the connection adds a header: it is on the wire and in the stream's context
	ctx = metadata.AppendToOutgoingContext(ctx, "added-by-interceptor", "token")
	n := vNewNet[tunnelpb.ClientToServer, tunnelpb.ServerToClient](ctx, s.capacity, s.strip)
	s.fwd = n
	verifGo("network-server", func() {
		s.herr = s.svc.OpenTunnel(&vNetSrv[tunnelpb.ClientToServer, tunnelpb.ServerToClient]{n})
		s.done = true
		close(n.down)
		n.finish(s.herr)
	})
	verifGo("network-cancel", func() {
		// a cancelled network client resets the stream: the server's context ends
		select {
		case <-ctx.Done():
			n.scancel()
		case <-n.srvDone:
		}
	})
	return &vNetCli[tunnelpb.ClientToServer, tunnelpb.ServerToClient]{n}, nil
}

func (s *vE2EStub) OpenReverseTunnel(ctx context.Context, opts ...grpc.CallOption) (grpc.BidiStreamingClient[tunnelpb.ServerToClient, tunnelpb.ClientToServer], error) {
	n := vNewNet[tunnelpb.ServerToClient, tunnelpb.ClientToServer](ctx, s.capacity, s.strip)
	s.rev = n
	verifGo("network-server", func() {
		s.herr = s.svc.OpenReverseTunnel(&vNetSrv[tunnelpb.ServerToClient, tunnelpb.ClientToServer]{n})
		s.done = true
		close(n.down)
		n.finish(s.herr)
	})
	verifGo("network-cancel", func() {
		select {
		case <-ctx.Done():
			n.scancel()
		case <-n.srvDone:
		}
	})
	return &vNetCli[tunnelpb.ServerToClient, tunnelpb.ClientToServer]{n}, nil
}

// ---- the application on both ends

// what the handler is told to do, and what it saw
type vE2EApp struct {
	// script
	setHeader, sendHeaderEarly, setTrailer bool
	hdr, tlr                               metadata.MD
	responses                              [][]byte
	code                                   codes.Code
	msg                                    string
	// observations
	calls      []string
	returns    int
	reqs       [][]byte
	sawEOF     bool
	recvErr    error
	sendErrs   int
	inMD       metadata.MD
	tunnelMD   metadata.MD
	tunnelMDok bool
	marker     any
	peer       *peer.Peer
	deadline   time.Duration
	hasDL      bool
	hctx       context.Context
	shapeCS    bool
	shapeSS    bool
}

func (a *vE2EApp) observe(name string, ctx context.Context) {
	a.calls = append(a.calls, name)
	a.hctx = ctx
	a.inMD, _ = metadata.FromIncomingContext(ctx)
	a.tunnelMD, a.tunnelMDok = TunnelMetadataFromIncomingContext(ctx)
	a.marker = ctx.Value(vNetKey{})
	a.peer, _ = peer.FromContext(ctx)
	a.deadline, a.hasDL = verifDeadline(ctx)
}

func (a *vE2EApp) result() error {
	if a.code == codes.OK {
		return nil
	}
	return status.Error(a.code, a.msg)
}

func vE2EHandlers(a *vE2EApp) grpchan.HandlerMap {
	hm := grpchan.HandlerMap{}
	for _, sn := range []string{"a", "b.c"} {
		sn := sn
		unary := func(srv any, ctx context.Context, dec func(any) error, _ grpc.UnaryServerInterceptor) (any, error) {
			a.observe(sn+"/u", ctx)
			defer func() { a.returns++ }()
			in := &wrapperspb.BytesValue{}
			if err := dec(in); err != nil {
				a.recvErr = err
				return nil, err
			}
			a.reqs = append(a.reqs, in.Value)
			a.sawEOF = true // generated code only runs the body after exactly one request
			if a.setHeader {
				_ = grpc.SetHeader(ctx, a.hdr)
			}
			if a.setTrailer {
				_ = grpc.SetTrailer(ctx, a.tlr)
			}
			if a.code != codes.OK {
				return nil, a.result()
			}
			return &wrapperspb.BytesValue{Value: a.responses[0]}, nil
		}
		mkStream := func(mname string, cs bool) grpc.StreamHandler {
			return func(srv any, st grpc.ServerStream) error {
				a.observe(sn+"/"+mname, st.Context())
				defer func() { a.returns++ }()
				if ss, ok := st.(*tunnelServerStream); ok {
					a.shapeCS, a.shapeSS = ss.isClientStream, ss.isServerStream
				}
				if a.setHeader {
					if a.sendHeaderEarly {
						_ = st.SendHeader(a.hdr)
					} else {
						_ = st.SetHeader(a.hdr)
					}
				}
				if cs {
					for {
						in := &wrapperspb.BytesValue{}
						if err := st.RecvMsg(in); err != nil {
							a.recvErr = err
							a.sawEOF = err == io.EOF
							break
						}
						a.reqs = append(a.reqs, in.Value)
					}
					if !a.sawEOF {
						return a.recvErr
					}
				} else {
					// generated code for a server-streaming method reads the one request first
					in := &wrapperspb.BytesValue{}
					if err := st.RecvMsg(in); err != nil {
						a.recvErr = err
						return err
					}
					a.reqs = append(a.reqs, in.Value)
					a.sawEOF = true
				}
				for _, r := range a.responses {
					if err := st.SendMsg(&wrapperspb.BytesValue{Value: r}); err != nil {
						a.sendErrs++
						return err
					}
				}
				if a.setTrailer {
					st.SetTrailer(a.tlr)
				}
				return a.result()
			}
		}
		desc := &grpc.ServiceDesc{
			ServiceName: sn,
			HandlerType: (*any)(nil),
			Methods:     []grpc.MethodDesc{{MethodName: "u", Handler: unary}},
			Streams: []grpc.StreamDesc{{StreamName: "s", Handler: mkStream("s", true), ClientStreams: true, ServerStreams: true},
				{StreamName: "ss", Handler: mkStream("ss", false), ServerStreams: true},
				{StreamName: "cs", Handler: mkStream("cs", true), ClientStreams: true}},
		}
		hm.RegisterService(desc, &vSvcImpl{sn})
	}
	return hm
}

// protocol monitor over the two directions of one tunnel's wire log (C13, C11, C08)
func vE2EWire(c2s []*tunnelpb.ClientToServer, s2c []*tunnelpb.ServerToClient, negotiated bool, rev1 bool, cancelled bool) {
	// ---- client to server
	type cstate struct {
		opened, half, cancel bool
		want, have            int64 // message reassembly: announced size, bytes so far (-1: no message open)
	}
	cs := map[int64]*cstate{}
	last := int64(0)
	for _, f := range c2s {
		s := cs[f.StreamId]
		if ns, ok := f.Frame.(*tunnelpb.ClientToServer_NewStream); ok {
			verifAssert(s == nil, "C08+C13.e2e-one-new-stream-frame-per-id")
			verifAssert(f.StreamId > last, "C08+C13.e2e-ids-strictly-increasing-on-the-wire")
			last = f.StreamId
			wantRev := tunnelpb.ProtocolRevision_REVISION_ZERO
			if rev1 {
				wantRev = tunnelpb.ProtocolRevision_REVISION_ONE
			}
			verifAssert(ns.NewStream.ProtocolRevision == wantRev, "C11+C13.e2e-new-stream-carries-the-negotiated-revision")
			cs[f.StreamId] = &cstate{opened: true, want: -1}
			continue
		}
		verifAssert(s != nil && s.opened, "C08+C13.e2e-every-rpc-begins-with-its-new-stream-frame")
		if s == nil {
			continue
		}
		switch fr := f.Frame.(type) {
		case *tunnelpb.ClientToServer_RequestMessage:
			verifAssert(!s.half, "C13.e2e-no-request-data-after-half-close")
			verifAssert(s.want == -1, "C01+C13.e2e-request-messages-contiguous")
			verifAssert(len(fr.RequestMessage.Data) <= chunkMax, "C06+C13.e2e-request-frame-at-most-16k")
			s.want, s.have = int64(fr.RequestMessage.Size), int64(len(fr.RequestMessage.Data))
			verifAssert(s.have <= s.want, "C13.e2e-request-envelope-size-covers-data")
			if s.have == s.want {
				s.want = -1
			}
		case *tunnelpb.ClientToServer_MoreRequestData:
			verifAssert(!s.half, "C13.e2e-no-request-data-after-half-close")
			verifAssert(s.want != -1, "C13.e2e-request-continuation-only-inside-a-message")
			verifAssert(len(fr.MoreRequestData) <= chunkMax, "C06+C13.e2e-request-frame-at-most-16k")
			s.have += int64(len(fr.MoreRequestData))
			verifAssert(s.have <= s.want, "C13.e2e-request-chunks-add-up-to-the-announced-size")
			if s.have == s.want {
				s.want = -1
			}
		case *tunnelpb.ClientToServer_HalfClose:
			verifAssert(!s.half, "C13.e2e-at-most-one-half-close")
			verifAssert(s.want == -1 || cancelled, "C13.e2e-half-close-not-inside-a-message")
			s.half = true
		case *tunnelpb.ClientToServer_Cancel:
			verifAssert(!s.cancel, "C13.e2e-at-most-one-cancel")
			s.cancel = true
		case *tunnelpb.ClientToServer_WindowUpdate:
			verifAssert(rev1, "C11+C13.e2e-no-window-updates-at-revision-zero")
		}
	}
	// ---- server to client
	type sstate struct {
		hdrs, msgs, closed bool
		want, have          int64
	}
	ss := map[int64]*sstate{}
	for i, f := range s2c {
		if _, ok := f.Frame.(*tunnelpb.ServerToClient_Settings); ok {
			verifAssert(negotiated && i == 0 && f.StreamId == -1, "C11+C13.e2e-settings-only-when-negotiated-first-and-with-id-minus-one")
			continue
		}
		if i == 0 {
			verifAssert(!negotiated, "C11+C13.e2e-settings-is-the-first-server-frame")
		}
		s := ss[f.StreamId]
		if s == nil {
			s = &sstate{want: -1}
			ss[f.StreamId] = s
		}
		verifAssert(cs[f.StreamId] != nil, "C13.e2e-server-frames-only-for-streams-the-client-opened")
		if !cancelled {
			verifAssert(!s.closed, "C13.e2e-close-is-the-last-frame-of-a-stream")
		}
		switch fr := f.Frame.(type) {
		case *tunnelpb.ServerToClient_ResponseHeaders:
			verifAssert(!s.hdrs, "C02+C13.e2e-response-headers-at-most-once")
			verifAssert(!s.msgs || cancelled, "C02+C13.e2e-response-headers-before-any-message")
			s.hdrs = true
		case *tunnelpb.ServerToClient_ResponseMessage:
			s.msgs = true
			verifAssert(s.want == -1, "C01+C13.e2e-response-messages-contiguous")
			verifAssert(len(fr.ResponseMessage.Data) <= chunkMax, "C06+C13.e2e-response-frame-at-most-16k")
			s.want, s.have = int64(fr.ResponseMessage.Size), int64(len(fr.ResponseMessage.Data))
			verifAssert(s.have <= s.want, "C13.e2e-response-envelope-size-covers-data")
			if s.have == s.want {
				s.want = -1
			}
		case *tunnelpb.ServerToClient_MoreResponseData:
			verifAssert(s.want != -1, "C13.e2e-response-continuation-only-inside-a-message")
			verifAssert(len(fr.MoreResponseData) <= chunkMax, "C06+C13.e2e-response-frame-at-most-16k")
			s.have += int64(len(fr.MoreResponseData))
			verifAssert(s.have <= s.want, "C13.e2e-response-chunks-add-up-to-the-announced-size")
			if s.have == s.want {
				s.want = -1
			}
		case *tunnelpb.ServerToClient_CloseStream:
			verifAssert(!s.closed, "C13.e2e-exactly-one-close-frame")
			if !cancelled {
				verifAssert(s.want == -1, "C13.e2e-close-not-inside-a-message")
			}
			s.closed = true
		case *tunnelpb.ServerToClient_WindowUpdate:
			verifAssert(rev1, "C11+C13.e2e-no-window-updates-at-revision-zero")
		}
	}
}

// legal gRPC metadata: a key that ends in "-bin" carries arbitrary bytes, any other key printable ASCII
func vE2EMD(tag string, key string) metadata.MD {
	val := func(t string) string {
		// (printable ASCII also under "-bin" keys here; other byte values: dimension group 5)
		// exactly two symbolic bytes (a symbolic length would fork every loop over the value)
		v := verifASCII(t, 2)
		verifAssume(len(v) == 2)
		return v
	}
	if tag == "tlr" {
		return metadata.MD{key: {val(tag + "-v1"), val(tag + "-v2")}}
	}
	if verifBool(tag + "-two-values") {
		return metadata.MD{key: {val(tag + "-v1"), ""}} // the second value is the empty string
	}
	return metadata.MD{key: {val(tag + "-v1")}}
}

// the carrier's marshalling contract (protobuf: a proto3 string field must be valid UTF-8; gRPC: a
// message that cannot be marshalled fails the Send and finishes the stream it was sent on)
func vFrameStrings(md *tunnelpb.Metadata, more ...string) bool {
	for _, s := range more {
		if !vValidUTF8(s) {
			return false
		}
	}
	if md != nil {
		for k, vs := range md.Md {
			if !vValidUTF8(k) {
				return false
			}
			for _, v := range vs.Val {
				if !vValidUTF8(v) {
					return false
				}
			}
		}
	}
	return true
}

func vMarshalsC2S(m *tunnelpb.ClientToServer) bool {
	if ns, ok := m.Frame.(*tunnelpb.ClientToServer_NewStream); ok {
		return vFrameStrings(ns.NewStream.RequestHeaders, ns.NewStream.MethodName)
	}
	return true
}

func vMarshalsS2C(m *tunnelpb.ServerToClient) bool {
	switch f := m.Frame.(type) {
	case *tunnelpb.ServerToClient_ResponseHeaders:
		return vFrameStrings(f.ResponseHeaders)
	case *tunnelpb.ServerToClient_CloseStream:
		return vFrameStrings(f.CloseStream.ResponseTrailers, f.CloseStream.Status.GetMessage())
	}
	return true
}

func vMarshals(m any) bool {
	switch m := m.(type) {
	case *tunnelpb.ClientToServer:
		return vMarshalsC2S(m)
	case *tunnelpb.ServerToClient:
		return vMarshalsS2C(m)
	}
	return true
}

// S-E2E / KS-E2E (C01 C02 C04 C07 C08 C11 C13 C14 C16 C17 C18): one RPC of any call shape
// through a whole tunnel, forward or reverse, with or without flow control on either
// end, ended by the handler (any status), by the caller cancelling, or by the tunnel
// being closed; then the tunnel is shut down.
func verifH_E2E() {
	// ---- everything nondeterministic is drawn up front (the native replay reads inputs in call order).
	// The scenario space is explored per dimension group, the other dimensions pinned:
	//  0 data: call shape x 0-2 requests x 0-2 responses x headers/trailers/status x request metadata
	//  1 configuration: direction x flow control disabled on either end x shape x service x method-name form
	//  2 events: direction x revision x shape x {caller cancels, tunnel closed} x when x who runs in between x handler outcome
	//  3 endings: direction x how the tunnel ends x shape
	//  4 graceful shutdown while the RPC is in flight: direction x streaming shape x when x handler outcome
	//  5 binary metadata: a "-bin" value that is valid UTF-8 beyond ASCII / not valid UTF-8, as request
	//    metadata, response header or trailer x direction x unary / bidi
	//  6 a rejected RPC first: unknown service / unknown method / malformed name / empty name, as a unary or
	//    a bidi call, then the RPC proper on the same tunnel x direction
	group := verifChoice("group", 7)
	if verifParam("groups")&(1<<group) == 0 {
		return
	}
	inG := func(gs ...int) bool {
		for _, g := range gs {
			if g == group {
				return true
			}
		}
		return false
	}
	reverse := inG(1, 2, 3, 4, 5, 6) && verifBool("reverseTunnel")
	badKind, badBidi := -1, false
	if inG(6) {
		badKind = verifChoice("rejectedMethod", 4)
		badBidi = verifBool("rejectedCallIsBidi")
	}
	cliNoFC := (inG(1) || (inG(2) && verifParam("ilv") != 0)) && verifBool("rpcClientEndDisablesFlowControl")
	srvNoFC := inG(1) && verifBool("rpcServerEndDisablesFlowControl")
	// the negotiate header does not get through (either way): each end then faces a peer that does not
	// advertise negotiation, i.e. what a revision-zero implementation looks like from outside
	stripped := inG(1) && verifBool("negotiateHeaderStripped")
	shape := 0 // 0 unary (Invoke), 1 client-streaming, 2 server-streaming, 3 bidi
	if inG(0, 1) || (inG(2) && verifParam("ilv") != 0) {
		shape = verifChoice("shape", 4)
	} else if inG(4) {
		shape = 1 + verifChoice("streamingShape", 3)
	} else if verifBool("bidi") {
		shape = 3
	}
	cs, ss := shape == 1 || shape == 3, shape == 2 || shape == 3
	svcName, leadingSlash := "a", true
	if inG(1) {
		svcName = []string{"a", "b.c"}[verifChoice("service", 2)]
		leadingSlash = !verifBool("noLeadingSlash")
	}
	mname := []string{"u", "cs", "ss", "s"}[shape]
	method := svcName + "/" + mname
	if leadingSlash {
		method = "/" + method
	}
	maxlen := verifParam("maxlen")
	payload := func(tag string) []byte {
		if inG(0) {
			return verifBytes(tag, maxlen)
		}
		return []byte{verifU8(tag)}
	}
	nreq := 1
	if cs && inG(0) {
		nreq = verifChoice("requests", 3)
	}
	var reqs [][]byte
	for i := 0; i < nreq; i++ {
		reqs = append(reqs, payload("req"))
	}
	app := &vE2EApp{}
	if inG(0) {
		app.setHeader = verifBool("handlerSetsHeaders")
		if app.setHeader {
			app.hdr = vE2EMD("hdr", "hk-bin")
			app.sendHeaderEarly = verifBool("sendHeaderEarly")
		}
		app.setTrailer = verifBool("handlerSetsTrailers")
		if app.setTrailer {
			app.tlr = vE2EMD("tlr", "tk-bin")
		}
	}
	if inG(0, 2, 4) && verifBool("handlerFails") {
		c := verifU32("code")
		verifAssume(c >= 1 && c <= 16)
		app.code = codes.Code(c)
		app.msg = "m"
		if inG(0) {
			// a gRPC status message is a Unicode string; explored: two symbolic printable ASCII characters
			app.msg = verifASCII("statusMessage", 2)
			verifAssume(len(app.msg) == 2)
		}
	}
	nresp := 1
	if ss && inG(0) {
		nresp = verifChoice("responses", 3)
	} else if !ss && app.code != codes.OK {
		nresp = 0
	}
	for i := 0; i < nresp; i++ {
		app.responses = append(app.responses, payload("resp"))
	}
	binWhere, binInvalid := -1, false
	if inG(5) {
		// 0 request metadata, 1 response headers, 2 trailers, 3 the handler's status message, 4 the method name
		binWhere = verifChoice("binaryValueIn", 5)
		binInvalid = verifBool("notUTF8")
		bv := "\xc3\xa9\x00" // valid UTF-8: e-acute, NUL
		if binInvalid {
			bv = "\xff\xfe"
		}
		switch binWhere {
		case 1:
			app.setHeader, app.hdr = true, metadata.MD{"hk-bin": {"ok", bv}}
		case 2:
			app.setTrailer, app.tlr = true, metadata.MD{"tk-bin": {bv}}
		case 3:
			// (Go strings hold any bytes: an error text built from binary data is an everyday case)
			app.code, app.msg = codes.DataLoss, "bad record "+bv
			if !ss {
				app.responses = nil
			}
		case 4:
			method = method + bv // no such method, whatever its bytes: the call is refused, alone
		}
	}
	withReqMD := (inG(0) && verifBool("callerAttachesMetadata")) || binWhere == 0
	var reqMD metadata.MD
	viaCreds := false // the binary value comes from per-RPC credentials (a binary token), not from the context
	var callCreds *vCreds
	if binWhere == 0 {
		bv := "\xc3\xa9\x00"
		if binInvalid {
			bv = "\xff\xfe"
		}
		reqMD = metadata.MD{"rk-bin": {bv}, "plain": {"v"}}
		if viaCreds = verifBool("binaryValueFromCredentials"); viaCreds {
			callCreds = &vCreds{pairs: map[string]string{"rk-bin": bv}}
		}
	} else if withReqMD {
		reqMD = vE2EMD("rmd", "rk")
		if verifBool("grpcTimeoutHeader") {
			reqMD["grpc-timeout"] = []string{"7S"}
		}
	}
	// event: 0 the RPC runs to completion, 1 the caller cancels, 2 the tunnel is closed under it,
	// 3 graceful shutdown is initiated while the RPC is in flight (it must not change the RPC's outcome),
	// 4 the carrier stream fails under it (the transport goes away)
	event, when := 0, 0
	var interleave [4]bool // the peer gets to run between the application's operations, or not
	if inG(2) {
		event = []int{1, 2, 4}[verifChoice("event", 3)]
		when = verifChoice("when", 3) // 0 right after the RPC was started, 1 after the requests, 2 after the half-close
		switch verifParam("ilv") {
		case 4:
			for i := range interleave {
				interleave[i] = verifBool("peerRunsInBetween")
			}
		case 1:
			if verifBool("peerRunsInBetween") {
				interleave = [4]bool{true, true, true, true}
			}
		}
	}
	if inG(4) {
		event = 3
		when = verifChoice("when", 3)
	}
	ending := 0
	if inG(3) {
		ending = verifChoice("tunnelEnding", 3)
	}

	// ---- the tunnel
	handlers := vE2EHandlers(app)
	h := NewTunnelServiceHandler(TunnelServiceHandlerOptions{DisableFlowControl: (!reverse && srvNoFC) || (reverse && cliNoFC)})
	stub := &vE2EStub{svc: h.Service(), strip: stripped}
	openCtx := metadata.NewOutgoingContext(context.Background(), metadata.MD{"opener": {"me"}})
	openCtx, openCancel := context.WithCancel(openCtx)
	defer openCancel()
	var ch grpc.ClientConnInterface
	var tch TunnelChannel
	var rts *ReverseTunnelServer
	var serveStarted, serveDone bool
	var serveErr error
	if !reverse {
		h.handlers = handlers
		var opts []TunnelOption
		if cliNoFC {
			opts = append(opts, WithDisableFlowControl())
		}
		tc, err := NewChannel(stub, opts...).Start(openCtx)
		verifAssert(err == nil && tc != nil, "C11.e2e-forward-tunnel-starts")
		if err != nil {
			return
		}
		ch, tch = tc, tc
	} else {
		var opts []TunnelOption
		if srvNoFC {
			opts = append(opts, WithDisableFlowControl())
		}
		rts = NewReverseTunnelServer(stub, opts...)
		rts.handlers = handlers
		verifGo("serve", func() {
			serveStarted, serveErr = rts.Serve(openCtx)
			serveDone = true
		})
		verifDrain()
		all := h.AllReverseTunnels()
		verifAssert(len(all) == 1, "C12.e2e-reverse-tunnel-registered")
		if len(all) != 1 {
			return
		}
		tch = all[0]
		ch = h.AsChannel()
		verifAssert(h.AsChannel().Ready() && h.KeyAsChannel(nil).Ready(), "C12.e2e-ready-with-a-tunnel")
	}
	verifDrain()
	g0 := verifLiveGoroutines()
	rev1 := !cliNoFC && !srvNoFC && !stripped
	c := tch.(*tunnelChannel)
	verifAssert((c.useRevision == tunnelpb.ProtocolRevision_REVISION_ONE) == rev1, "C11.e2e-flow-control-exactly-when-neither-end-disabled-it")

	// ---- (group 6) an RPC that the server rejects comes first: it fails alone, with the documented status
	if badKind >= 0 {
		verifCover("e2e-rejected-first")
		bad := []string{"/nosuch/u", "/a/nosuch", "nomethodpart", ""}[badKind]
		want := []codes.Code{codes.Unimplemented, codes.Unimplemented, codes.InvalidArgument, codes.InvalidArgument}[badKind]
		var berr error
		if badBidi {
			bst, err := ch.NewStream(context.Background(), &grpc.StreamDesc{ClientStreams: true, ServerStreams: true}, bad)
			verifAssert(err == nil, "C08.e2e-rejected-rpc-starts")
			if err == nil {
				_ = bst.SendMsg(&wrapperspb.BytesValue{Value: []byte{1}})
				_ = bst.CloseSend()
				berr = bst.RecvMsg(&wrapperspb.BytesValue{})
			}
		} else {
			berr = ch.Invoke(context.Background(), bad, &wrapperspb.BytesValue{Value: []byte{1}}, &wrapperspb.BytesValue{})
		}
		verifAssert(status.Code(berr) == want, "C03+C09.e2e-rejected-rpc-fails-with-the-documented-status")
		verifDrain()
		verifAssert(len(app.calls) == 0, "C08.e2e-rejected-rpc-reaches-no-handler")
		verifAssert(c.Err() == nil && vChanOpenRO(c.Done()), "C03.e2e-a-rejected-rpc-does-not-end-the-tunnel")
		verifAssert(verifLiveGoroutines() == g0, "C14.e2e-no-goroutine-kept-for-the-rejected-rpc")
	}

	// ---- the RPC
	ctx := context.Background()
	if withReqMD {
		out := reqMD.Copy()
		if viaCreds {
			delete(out, "rk-bin") // that one is added by the credentials
		}
		ctx = metadata.NewOutgoingContext(ctx, out)
	}
	// (the caller cancels with a cause, as context.WithCancelCause allows: the outcome is Canceled all the same)
	ctx, cancelCause := context.WithCancelCause(ctx)
	cancel := func() { cancelCause(errors.New("the user went away")) }
	defer cancel()
	// the call-option targets are variables the caller reuses: whatever an earlier call left in them is replaced
	hdrT, tlrT := metadata.MD{"stale": {"header of an earlier call"}}, metadata.MD{"stale": {"trailer of an earlier call"}}
	var usedCh2 TunnelChannel // the option may be given twice (the application's and an interceptor's)
	var callPeer peer.Peer
	var usedCh TunnelChannel
	var got [][]byte
	var final error
	finished := false
	gracefulReturned := false
	strike := func(at int) {
		if event != 0 && when == at {
			switch event {
			case 1:
				cancel()
			case 2:
				tch.Close()
			case 4:
				if reverse {
					stub.rev.fail()
				} else {
					stub.fwd.fail()
				}
			case 3:
				// the RPC is in flight on both ends (the peer has come to rest: the handler is running) ...
				verifDrain()
				verifAssert(len(app.calls) == 1, "C10.e2e-the-rpc-is-in-flight-when-shutdown-starts")
				// ... when graceful shutdown is initiated
				if reverse {
					verifGo("graceful-stop", func() { rts.GracefulStop(); gracefulReturned = true })
					verifDrain()
				} else {
					h.InitiateShutdown()
				}
			}
		}
		if interleave[at] {
			verifDrain()
		}
	}
	var st grpc.ClientStream
	if shape == 0 {
		resp := &wrapperspb.BytesValue{}
		if event != 0 {
			// a unary call is one blocking operation: the event strikes from another goroutine
			verifGo("striker", func() { strike(when) })
		}
		opts := []grpc.CallOption{grpc.Header(&hdrT), grpc.Trailer(&tlrT), WithTunnelChannel(&usedCh), grpc.Peer(&callPeer), WithTunnelChannel(&usedCh2)}
		if callCreds != nil {
			opts = append(opts, grpc.PerRPCCredentials(callCreds))
		}
		final = ch.Invoke(ctx, method, &wrapperspb.BytesValue{Value: reqs[0]}, resp, opts...)
		if final == nil {
			got = append(got, resp.Value)
		}
		finished = true
	} else {
		var err error
		opts := []grpc.CallOption{grpc.Header(&hdrT), grpc.Trailer(&tlrT), WithTunnelChannel(&usedCh), WithTunnelChannel(&usedCh2)}
		if callCreds != nil {
			opts = append(opts, grpc.PerRPCCredentials(callCreds))
		}
		st, err = ch.NewStream(ctx, &grpc.StreamDesc{ClientStreams: cs, ServerStreams: ss}, method, opts...)
		if binInvalid && (binWhere == 0 || binWhere == 4) && err != nil {
			// the RPC is refused at the start because its metadata cannot be carried (F9): the
			// refusal must stay an affair of this RPC - the rest of the harness checks the tunnel
			final, finished, st = err, true, nil
			goto afterCall
		}
		verifAssert(err == nil, "C08.e2e-rpc-starts-on-an-open-tunnel")
		if err != nil {
			return
		}
		verifAssert(TunnelChannelFromContext(st.Context()) == tch, "C17.e2e-stream-context-names-the-tunnel-that-carries-it")
		tmd, ok := TunnelMetadataFromOutgoingContext(st.Context())
		if !reverse {
			verifAssert(ok && len(tmd["opener"]) == 1 && tmd["opener"][0] == "me", "C17.e2e-caller-can-recover-the-opening-metadata")
			// ... all of it: also what a client interceptor added to the tunnel-opening call (the handler sees it, too)
			verifAssert(len(tmd["added-by-interceptor"]) == 1, "C17.e2e-opening-metadata-is-what-went-on-the-wire")
		}
		strike(0)
		sendFailed := false
		for _, r := range reqs {
			if err := st.SendMsg(&wrapperspb.BytesValue{Value: r}); err != nil {
				sendFailed = true
				break
			}
		}
		_ = sendFailed
		strike(1)
		_ = st.CloseSend()
		strike(2)
		for k := 0; k < 4; k++ {
			m := &wrapperspb.BytesValue{}
			if err := st.RecvMsg(m); err != nil {
				final = err
				finished = true
				break
			}
			got = append(got, m.Value)
			if !ss {
				// generated CloseAndRecv: one RecvMsg, its nil result is the OK outcome
				finished = true
				break
			}
		}
		if interleave[3] {
			verifDrain()
		}
	}
afterCall:
	verifAssert(finished, "C04+C07.e2e-the-call-ends")
	verifDrain()

	// ---- what both applications saw
	if inG(5) {
		// C03: whatever happens to an RPC whose metadata cannot be encoded, the tunnel is not ended by it
		verifAssert(c.Err() == nil && vChanOpenRO(c.Done()), "C03.e2e-unencodable-metadata-never-ends-the-tunnel")
	}
	okOutcome := (ss && final == io.EOF) || (!ss && final == nil)
	handlerOutcome := false // the caller's result is the handler's
	if binWhere == 4 {
		// a method that does not exist: refused with an error, no handler, and (asserted above) the tunnel lives
		verifCover("e2e-odd-method-name")
		verifAssert(final != nil && final != io.EOF && len(app.calls) == 0, "C03+C08.e2e-call-to-a-method-name-with-odd-bytes-is-refused-alone")
	} else if binInvalid && binWhere == 3 {
		// the status code is the handler's; a message that is not valid UTF-8 cannot be carried as it is (F9)
		verifCover("e2e-unencodable-status-message")
		verifAssert(status.Code(final) == app.code, "C02+C03.e2e-status-code-exact-whatever-the-message-bytes")
		sp, _ := status.FromError(final)
		verifAssert(sp.Message() == app.msg, "C02.e2e-status-message-that-is-not-utf8-is-delivered-exactly")
	} else if binInvalid && binWhere == 0 {
		// C02 as stated: binary values are delivered exactly and the RPC runs as any other
		verifCover("e2e-unencodable-request-metadata")
		verifAssert(okOutcome && len(app.calls) == 1 && vSameMD(app.inMD, reqMD), "C02.e2e-bin-request-metadata-that-is-not-utf8-is-delivered-exactly")
		if len(app.calls) == 0 {
			verifAssert(final != nil && final != io.EOF, "C02+C03.e2e-rpc-with-unencodable-metadata-fails-with-an-error")
		}
	} else if okOutcome {
		handlerOutcome = true
		verifCover("e2e-ok")
		verifAssert(app.code == codes.OK, "C02.e2e-ok-only-when-the-handler-returned-ok")
		verifAssert(len(app.calls) == 1 && app.returns == 1, "C08.e2e-exactly-one-invocation-for-a-completed-call")
		verifAssert(len(got) == len(app.responses), "C01.e2e-all-responses-delivered-on-ok")
		verifAssert(app.sawEOF && len(app.reqs) == len(reqs), "C01.e2e-handler-saw-all-requests-and-end-of-stream")
	} else if event == 0 || event == 3 {
		handlerOutcome = true
		verifCover("e2e-error-status")
		verifAssert(app.code != codes.OK, "C02.e2e-error-only-when-the-handler-returned-one")
		verifAssert(status.Code(final) == app.code, "C02.e2e-status-code-exact")
		sp, _ := status.FromError(final)
		verifAssert(sp.Message() == app.msg, "C02.e2e-status-message-exact")
	} else {
		// cancelled or cut: exactly one of the two legal outcomes
		code := status.Code(final)
		if app.returns == 1 && app.code != codes.OK && code == app.code && app.sendErrs == 0 && app.sawEOF && !(event == 1 && code == codes.Canceled) {
			handlerOutcome = true // the handler ran to its end and its own error got through first
		} else if event == 1 {
			verifCover("e2e-cancelled")
			verifAssert(code == codes.Canceled, "C07.e2e-cancelled-call-ends-with-canceled")
		} else if event == 4 {
			verifCover("e2e-carrier-failed-under-the-call")
			verifAssert(final != nil && final != io.EOF, "C04.e2e-call-on-a-failed-tunnel-ends-non-ok")
		} else {
			verifCover("e2e-tunnel-closed-under-the-call")
			verifAssert(final != nil && final != io.EOF, "C04.e2e-call-on-a-closed-tunnel-ends-non-ok")
		}
	}
	if shape == 0 && reverse && usedCh != nil {
		// the caller of an RPC over a reverse tunnel can ask who is at the other end of that tunnel
		verifAssert(callPeer.Addr == vNetPeer.Addr, "C17.e2e-peer-call-option-names-the-tunnel-peer")
	}
	verifAssert(len(app.calls) <= 1, "C08.e2e-at-most-one-invocation")
	if len(app.calls) == 1 {
		verifAssert(app.calls[0] == svcName+"/"+mname, "C08.e2e-exactly-the-named-handler")
		// C02 / C17 / C18: what the handler's context carries
		if binInvalid && binWhere == 0 {
			// (asserted above under its own id)
		} else if withReqMD {
			verifAssert(vSameMD(app.inMD, reqMD), "C02.e2e-handler-sees-exactly-the-callers-metadata")
		} else {
			verifAssert(len(app.inMD) == 0, "C02.e2e-no-request-metadata-means-none")
		}
		verifAssert(app.tunnelMDok && len(app.tunnelMD["opener"]) == 1 && app.tunnelMD["opener"][0] == "me", "C17.e2e-handler-sees-the-opening-metadata")
		if !reverse {
			verifAssert(len(app.tunnelMD["added-by-interceptor"]) == 1, "C17.e2e-handler-sees-the-opening-metadata-as-it-went-on-the-wire")
		}
		if !reverse {
			verifAssert(app.marker == any("interceptor-value"), "C17.e2e-handler-context-derives-from-the-tunnel-opening-call")
			verifAssert(app.peer == vNetPeer, "C17.e2e-handler-sees-the-peer-of-the-tunnel-opening-call")
		}
		if withReqMD && len(reqMD["grpc-timeout"]) == 1 {
			verifCover("e2e-timeout")
			verifAssert(app.hasDL && verifSameDuration(app.deadline, 7*time.Second), "C18.e2e-grpc-timeout-header-becomes-the-handler-deadline")
		} else {
			verifAssert(!app.hasDL, "C18.e2e-no-header-no-deadline")
		}
		if shape != 0 {
			verifAssert(app.shapeCS == cs && app.shapeSS == ss, "C16.e2e-server-derives-the-call-shape-of-the-method")
		}
		verifAssert(app.hctx.Err() != nil, "C04+C07+C14.e2e-handler-context-is-cancelled-once-the-rpc-is-over")
	}
	// C01: prefix property in both directions, byte for byte
	verifAssert(len(app.reqs) <= len(reqs), "C01.e2e-no-fabricated-request")
	for i := range app.reqs {
		if i < len(reqs) {
			verifAssertBytesEq(app.reqs[i], reqs[i], "C01.e2e-requests-in-order-and-intact")
		}
	}
	verifAssert(len(got) <= len(app.responses), "C01.e2e-no-fabricated-response")
	for i := range got {
		if i < len(app.responses) {
			verifAssertBytesEq(got[i], app.responses[i], "C01.e2e-responses-in-order-and-intact")
		}
	}
	if !cs && len(app.calls) == 1 && app.sawEOF {
		verifAssert(len(app.reqs) == 1, "C16.e2e-non-streaming-request-handler-sees-exactly-one")
	}
	// C02: headers and trailers, through the accessors and through the call options
	if handlerOutcome {
		wantHdr, wantTlr := metadata.MD(nil), metadata.MD(nil)
		if app.setHeader {
			wantHdr = app.hdr
		}
		if app.setTrailer {
			wantTlr = app.tlr
		}
		if len(app.calls) == 0 {
			wantHdr, wantTlr = nil, nil
		}
		hdrID, tlrID := "C02.e2e-header-call-option-exact", "C02.e2e-trailer-call-option-exact"
		if binInvalid && binWhere == 1 {
			verifCover("e2e-unencodable-header")
			hdrID = "C02.e2e-bin-header-that-is-not-utf8-is-delivered-exactly"
		}
		if binInvalid && binWhere == 2 {
			verifCover("e2e-unencodable-trailer")
			tlrID = "C02.e2e-bin-trailer-that-is-not-utf8-is-delivered-exactly"
		}
		if st != nil {
			hd, herr := st.Header()
			if !(binInvalid && binWhere == 1) {
				verifAssert(herr == nil && vSameMD(hd, wantHdr), "C02.e2e-header-accessor-exact")
			}
			if !(binInvalid && binWhere == 2) {
				verifAssert(vSameMD(st.Trailer(), wantTlr), "C02.e2e-trailer-accessor-exact-after-the-terminal-result")
			}
		}
		verifAssert(vSameMD(hdrT, wantHdr), hdrID)
		verifAssert(vSameMD(tlrT, wantTlr), tlrID)
	}
	// (a call refused because the tunnel was already closed never had a tunnel)
	verifAssert(usedCh == tch || ((event == 2 || event == 4) && usedCh == nil && len(app.calls) == 0), "C17.e2e-with-tunnel-channel-names-the-tunnel")
	verifAssert(usedCh2 == usedCh, "C17.e2e-every-with-tunnel-channel-option-of-a-call-is-honoured")

	// ---- C14: the finished RPC left nothing behind (unless the tunnel itself was closed under it)
	srvSide := func() int {
		if !reverse {
			return -1 // the forward server's table is private to serveTunnel: observed through goroutines and frames
		}
		return 0
	}
	_ = srvSide
	if event != 2 && event != 4 {
		c.mu.RLock()
		nstreams := len(c.streams)
		c.mu.RUnlock()
		verifAssert(nstreams == 0, "C14.e2e-client-stream-table-empty-after-the-rpc")
		verifAssert(verifLiveGoroutines() == g0, "C14.e2e-no-goroutine-kept-for-the-finished-rpc")
		verifAssert(c.Err() == nil && vChanOpenRO(c.Done()), "C03.e2e-the-tunnel-survives-the-rpc")
	}

	// ---- C10: the shutdown did not change the in-flight RPC's outcome (checked above, exactly as for an
	// undisturbed RPC); every RPC started afterwards is refused, and the tunnel stays up
	if event == 3 {
		verifCover("e2e-shutdown")
		verifAssert(len(app.calls) == 1 && app.returns == 1, "C10.e2e-in-flight-rpc-ran-to-completion")
		late := &wrapperspb.BytesValue{}
		lerr := ch.Invoke(context.Background(), "/a/u", &wrapperspb.BytesValue{Value: []byte{9}}, late)
		verifAssert(status.Code(lerr) == codes.Unavailable, "C10.e2e-rpc-started-after-shutdown-is-refused-with-unavailable")
		// a slower caller: the refusal is back before it sends its request; whatever operation reports an
		// error to it reports the refusal, and the terminal result is Unavailable
		if lst, err := ch.NewStream(context.Background(), &grpc.StreamDesc{ClientStreams: true, ServerStreams: true}, "/a/s"); err == nil {
			verifDrain()
			serr := lst.SendMsg(&wrapperspb.BytesValue{Value: []byte{9}})
			verifAssert(serr == nil || serr == io.EOF || status.Code(serr) == codes.Unavailable, "C10.e2e-a-send-on-a-refused-rpc-does-not-report-something-else")
			_ = lst.CloseSend()
			verifAssert(status.Code(lst.RecvMsg(&wrapperspb.BytesValue{})) == codes.Unavailable, "C10.e2e-slow-rpc-started-after-shutdown-is-refused-with-unavailable")
		} else {
			verifAssert(status.Code(err) == codes.Unavailable, "C10.e2e-rpc-started-after-shutdown-is-refused-with-unavailable")
		}
		verifAssert(len(app.calls) == 1, "C10.e2e-refused-rpc-reaches-no-handler")
		verifDrain()
		verifAssert(c.Err() == nil && vChanOpenRO(c.Done()), "C10.e2e-the-tunnel-stays-up-during-graceful-shutdown")
		if reverse {
			verifAssert(!serveDone, "C10.e2e-serve-keeps-running-during-graceful-shutdown")
			// the in-flight RPC has finished: GracefulStop is due to return
			verifAssert(gracefulReturned, "C10.graceful-stop-returns-once-in-flight-rpcs-finished")
		}
	}

	// ---- the tunnel ends
	switch {
	case event == 2 || event == 4:
	case ending == 0:
		tch.Close()
	case ending == 1:
		openCancel()
	default:
		if reverse {
			rts.Stop()
		} else {
			tch.Close()
		}
	}
	verifDrain()
	verifAssert(!vChanOpenRO(c.Done()), "C04.e2e-done-closed-after-the-tunnel-ended")
	verifAssert(stub.done, "C04.e2e-network-server-handler-returned")
	if reverse {
		if event == 3 {
			verifAssert(gracefulReturned, "C10.e2e-graceful-stop-returns-when-the-tunnel-is-gone")
		}
		verifAssert(serveDone && serveStarted, "C04.e2e-serve-returned")
		verifAssert(len(h.AllReverseTunnels()) == 0 && !h.AsChannel().Ready(), "C12+C14.e2e-registry-empty-after-the-tunnel-ended")
		if event != 2 && event != 4 && ending != 1 {
			verifAssert(serveErr == nil, "C04.e2e-serve-ends-cleanly")
		}
		if event == 4 {
			verifAssert(serveErr != nil, "C04.e2e-serve-reports-the-carrier-failure")
		}
	}
	if event == 4 {
		verifAssert(c.Err() != nil, "C04.e2e-err-is-the-cause-after-the-carrier-failed")
	} else if event == 2 || ending != 1 {
		verifAssert(c.Err() == nil, "C04.e2e-err-nil-after-a-clean-close")
	} else {
		verifAssert(c.Err() != nil, "C04.e2e-err-is-the-cause-after-the-opening-context-ended")
	}
	_, err := c.newStream(context.Background(), true, true, "a/s")
	verifAssert(err != nil, "C04.e2e-rpc-on-an-ended-tunnel-fails-at-once")
	verifAssert(verifLiveGoroutines() == 0, "C14.e2e-no-goroutine-left-after-the-tunnel-ended")

	// ---- C13 / C11 / C08: the wire
	negotiated := !stripped // both ends are this library: both advertise, unless the header is lost on the way
	if !reverse {
		vE2EWire(stub.fwd.upLog, stub.fwd.downLog, negotiated, rev1, event == 1 || event == 2 || event == 4)
	} else {
		vE2EWire(stub.rev.downLog, stub.rev.upLog, negotiated, rev1, event == 1 || event == 2 || event == 4)
	}
}

// S-E2E-HOL (C01 C03 C05 C06 C08 C13 C14): two RPCs share one whole tunnel (both ends real, flow
// control negotiated, the carrier buffering only a few frames per direction). RPC A stalls: more
// than a window of data is sent on it and its consumer reads nothing, so its sender is parked. RPC B,
// started afterwards, must run to completion all the same (no head-of-line blocking, no deadlock
// through the bounded carrier); when A's consumer then reads, everything arrives intact and in
// order, the sender resumes and finishes, and the whole window is available again.
func verifH_E2EHol() {
	reverse := verifBool("reverseTunnel")
	stalledSide := verifChoice("stalledConsumer", 2) // 0 the caller of A does not read, 1 the handler of A does not read
	bPayload := verifBytes("bRequest", 3)
	bTwice := verifBool("secondUnaryCall")
	const nmsg, msgLen = 5, chunkMax // 5 x 16 KiB > the 64 KiB window
	mk := func(i int) []byte {
		b := append([]byte{byte(i + 1)}, make([]byte, msgLen-2)...)
		return append(b, byte(0x80+i))
	}
	release := make(chan struct{})
	var aSrv *tunnelServerStream
	var aGot [][]byte
	aSent, aHandlerDone, bCalls := 0, false, 0
	var aHandlerErr error
	hm := grpchan.HandlerMap{}
	hm.RegisterService(&grpc.ServiceDesc{ServiceName: "a", HandlerType: (*any)(nil), Streams: []grpc.StreamDesc{{StreamName: "s", ClientStreams: true, ServerStreams: true,
		Handler: func(srv any, st grpc.ServerStream) error {
			aSrv, _ = st.(*tunnelServerStream)
			defer func() { aHandlerDone = true }()
			if stalledSide == 0 {
				for i := 0; i < nmsg; i++ {
					if err := st.SendMsg(&wrapperspb.BytesValue{Value: mk(i)}); err != nil {
						aHandlerErr = err
						return err
					}
					aSent++
				}
				<-release
				return nil
			}
			<-release // reads nothing until released
			for {
				in := &wrapperspb.BytesValue{}
				if err := st.RecvMsg(in); err != nil {
					if err != io.EOF {
						aHandlerErr = err
					}
					return nil
				}
				aGot = append(aGot, in.Value)
			}
		}}}}, &vSvcImpl{"a"})
	hm.RegisterService(&grpc.ServiceDesc{ServiceName: "b.c", HandlerType: (*any)(nil), Methods: []grpc.MethodDesc{{MethodName: "u",
		Handler: func(srv any, ctx context.Context, dec func(any) error, _ grpc.UnaryServerInterceptor) (any, error) {
			bCalls++
			in := &wrapperspb.BytesValue{}
			if err := dec(in); err != nil {
				return nil, err
			}
			return &wrapperspb.BytesValue{Value: append([]byte{0xEE}, in.Value...)}, nil
		}}}}, &vSvcImpl{"b.c"})

	h := NewTunnelServiceHandler(TunnelServiceHandlerOptions{})
	stub := &vE2EStub{svc: h.Service(), capacity: verifParam("carrierCap")}
	openCtx, openCancel := context.WithCancel(context.Background())
	defer openCancel()
	var ch grpc.ClientConnInterface
	var tch TunnelChannel
	var rts *ReverseTunnelServer
	if !reverse {
		h.handlers = hm
		tc, err := NewChannel(stub).Start(openCtx)
		verifAssume(err == nil)
		ch, tch = tc, tc
	} else {
		rts = NewReverseTunnelServer(stub)
		rts.handlers = hm
		verifGo("serve", func() { _, _ = rts.Serve(openCtx) })
		verifDrain()
		all := h.AllReverseTunnels()
		verifAssume(len(all) == 1)
		tch, ch = all[0], h.AsChannel()
	}
	c := tch.(*tunnelChannel)
	verifAssume(c.useRevision == tunnelpb.ProtocolRevision_REVISION_ONE)

	// ---- RPC A stalls
	a, err := ch.NewStream(context.Background(), &grpc.StreamDesc{ClientStreams: true, ServerStreams: true}, "/a/s")
	verifAssert(err == nil, "C08.hol-rpc-a-starts")
	if err != nil {
		return
	}
	aCli := a.(*tunnelClientStream)
	aCallerSent, aCallerDone := 0, false
	var aCallerErr error
	if stalledSide == 1 {
		verifGo("caller-a-sender", func() {
			for i := 0; i < nmsg; i++ {
				if err := a.SendMsg(&wrapperspb.BytesValue{Value: mk(i)}); err != nil {
					aCallerErr = err
					break
				}
				aCallerSent++
			}
			aCallerDone = true
		})
	}
	verifDrain()
	if stalledSide == 0 {
		verifAssert(aSent < nmsg && !aHandlerDone && aHandlerErr == nil, "C05+C06.hol-sender-is-parked-once-a-window-is-unread")
		verifAssert(aSent >= 3, "C05.hol-sender-not-parked-before-the-window-is-used-up")
	} else {
		verifAssert(aCallerSent < nmsg && !aCallerDone, "C05+C06.hol-sender-is-parked-once-a-window-is-unread")
		verifAssert(aCallerSent >= 3, "C05.hol-sender-not-parked-before-the-window-is-used-up")
	}
	verifCover("hol-stalled")

	// ---- RPC B (and another one) must get through
	nb := 1
	if bTwice {
		nb = 2
	}
	for k := 0; k < nb; k++ {
		resp := &wrapperspb.BytesValue{}
		berr := ch.Invoke(context.Background(), "/b.c/u", &wrapperspb.BytesValue{Value: bPayload}, resp)
		verifAssert(berr == nil, "C03+C05.hol-rpc-on-the-same-tunnel-completes-while-another-is-stalled")
		if berr == nil {
			verifAssert(len(resp.Value) == len(bPayload)+1 && resp.Value[0] == 0xEE, "C01+C03.hol-response-belongs-to-the-right-rpc")
			verifAssertBytesEq(resp.Value[1:], bPayload, "C01.hol-unary-payload-intact")
		}
	}
	verifAssert(bCalls == nb, "C08.hol-one-invocation-per-unary-call")
	verifDrain()
	if stalledSide == 0 {
		verifAssert(aSent < nmsg && !aHandlerDone, "C05.hol-stalled-sender-still-parked")
	} else {
		verifAssert(!aCallerDone, "C05.hol-stalled-sender-still-parked")
	}

	// ---- the consumer of A reads: the sender resumes and everything arrives
	var aFinal error
	if stalledSide == 0 {
		var got [][]byte
		for k := 0; k < nmsg; k++ {
			m := &wrapperspb.BytesValue{}
			if err := a.RecvMsg(m); err != nil {
				aFinal = err
				break
			}
			got = append(got, m.Value)
		}
		verifAssert(aFinal == nil && len(got) == nmsg, "C01+C05.hol-all-stalled-messages-arrive-once-the-consumer-reads")
		for i, g := range got {
			verifAssert(len(g) == msgLen && g[0] == byte(i+1) && g[msgLen-1] == byte(0x80+i), "C01.hol-stalled-messages-in-order-and-intact")
		}
		verifDrain()
		verifAssert(aSent == nmsg, "C05.hol-sender-resumes-when-the-consumer-reads")
		if aSrv != nil {
			if ds, ok := aSrv.sender.(*defaultSender); ok {
				verifAssert(ds.currentWindow.Load() == initialWindowSize, "C05.hol-whole-window-available-again-after-everything-was-read")
			}
		}
		close(release)
		_ = a.CloseSend()
		m := &wrapperspb.BytesValue{}
		aFinal = a.RecvMsg(m)
		verifAssert(aFinal == io.EOF, "C01+C02.hol-stalled-rpc-ends-ok")
	} else {
		close(release)
		verifDrain()
		verifAssert(aCallerDone && aCallerErr == nil && aCallerSent == nmsg, "C05.hol-sender-resumes-when-the-consumer-reads")
		if ds, ok := aCli.sender.(*defaultSender); ok {
			verifAssert(ds.currentWindow.Load() == initialWindowSize, "C05.hol-whole-window-available-again-after-everything-was-read")
		}
		_ = a.CloseSend()
		m := &wrapperspb.BytesValue{}
		aFinal = a.RecvMsg(m)
		verifAssert(aFinal == io.EOF, "C01+C02.hol-stalled-rpc-ends-ok")
		verifAssert(len(aGot) == nmsg && aHandlerErr == nil, "C01+C05.hol-all-stalled-messages-arrive-once-the-consumer-reads")
		for i, g := range aGot {
			verifAssert(len(g) == msgLen && g[0] == byte(i+1) && g[msgLen-1] == byte(0x80+i), "C01.hol-stalled-messages-in-order-and-intact")
		}
	}
	verifCover("hol-resumed")
	verifDrain()
	c.mu.RLock()
	nstreams := len(c.streams)
	c.mu.RUnlock()
	verifAssert(nstreams == 0, "C14.hol-client-stream-table-empty")

	// ---- the tunnel ends
	tch.Close()
	verifDrain()
	verifAssert(stub.done, "C04.hol-network-server-handler-returned")
	verifAssert(verifLiveGoroutines() == 0, "C14.hol-no-goroutine-left")
	if !reverse {
		vE2EWire(stub.fwd.upLog, stub.fwd.downLog, true, true, false)
	} else {
		vE2EWire(stub.rev.downLog, stub.rev.upLog, true, true, false)
	}
}

// S-E2E-MULTI (C12 C17 C04 C14): several reverse tunnels, all ends real, open to one handler with an
// affinity-key function: the registry views (AllReverseTunnels, AsChannel, KeyAsChannel(k)) are
// exactly the open tunnels (with key k), n consecutive RPCs over a stable set of n tunnels use each
// once, every RPC reaches the handler of the tunnel that WithTunnelChannel names and that handler's
// context carries that tunnel's opening metadata, one open and one close callback per tunnel in that
// order, and when a tunnel ends - by Stop on its own end or Close on the handler's end - it leaves
// the views at once.
func verifH_E2EMulti() {
	nt := 2 + verifChoice("thirdTunnel", 2)
	keys := []string{"a", "a", "a"}
	for i := 1; i < nt; i++ {
		if verifBool("otherKey") {
			keys[i] = "b"
		}
	}
	var events []string // callbacks, in order
	nameOf := func(tc TunnelChannel) string {
		md, _ := metadata.FromIncomingContext(tc.Context())
		if len(md["name"]) == 1 {
			return md["name"][0]
		}
		return "?"
	}
	h := NewTunnelServiceHandler(TunnelServiceHandlerOptions{
		AffinityKey: func(tc TunnelChannel) any {
			md, _ := metadata.FromIncomingContext(tc.Context())
			if len(md["key"]) == 1 {
				return md["key"][0]
			}
			return nil
		},
		OnReverseTunnelOpen:  func(tc TunnelChannel) { events = append(events, "open-"+nameOf(tc)) },
		OnReverseTunnelClose: func(tc TunnelChannel) { events = append(events, "close-"+nameOf(tc)) },
	})
	type end struct {
		name    string
		rts     *ReverseTunnelServer
		stub    *vE2EStub
		calls   int
		sawName string
		done    bool
		err     error
	}
	var ends []*end
	openEnd := func(i int) {
		e := &end{name: []string{"t0", "t1", "t2", "t3"}[i]}
		e.stub = &vE2EStub{svc: h.Service()}
		e.rts = NewReverseTunnelServer(e.stub)
		hm := grpchan.HandlerMap{}
		hm.RegisterService(&grpc.ServiceDesc{ServiceName: "a", HandlerType: (*any)(nil), Methods: []grpc.MethodDesc{{MethodName: "u",
			Handler: func(srv any, ctx context.Context, dec func(any) error, _ grpc.UnaryServerInterceptor) (any, error) {
				e.calls++
				if md, ok := TunnelMetadataFromIncomingContext(ctx); ok && len(md["name"]) == 1 {
					e.sawName = md["name"][0]
				}
				in := &wrapperspb.BytesValue{}
				if err := dec(in); err != nil {
					return nil, err
				}
				return &wrapperspb.BytesValue{Value: in.Value}, nil
			}}}}, &vSvcImpl{"a"})
		e.rts.handlers = hm
		ends = append(ends, e)
		ctx := metadata.NewOutgoingContext(context.Background(), metadata.MD{"name": {e.name}, "key": {keys[i]}})
		verifGo("serve-"+e.name, func() {
			_, e.err = e.rts.Serve(ctx)
			e.done = true
		})
		verifDrain()
	}
	for i := 0; i < nt; i++ {
		openEnd(i)
	}
	// channel values obtained now are used much later: they must keep following the registry
	early := map[string]ReverseClientConnInterface{"a": h.KeyAsChannel("a"), "b": h.KeyAsChannel("b")}
	byName := func(tc TunnelChannel) *end {
		for _, e := range ends {
			if e.name == nameOf(tc) {
				return e
			}
		}
		return nil
	}
	// ---- all tunnels are up
	all := h.AllReverseTunnels()
	verifAssert(len(all) == nt, "C12.multi-all-reverse-tunnels-lists-every-open-tunnel")
	if len(all) != nt {
		return
	}
	for i := range all {
		for j := 0; j < i; j++ {
			verifAssert(all[i] != all[j], "C12.multi-no-tunnel-listed-twice")
		}
	}
	call := func(ch ReverseClientConnInterface) (TunnelChannel, error) {
		var used TunnelChannel
		resp := &wrapperspb.BytesValue{}
		err := ch.Invoke(context.Background(), "/a/u", &wrapperspb.BytesValue{Value: []byte{5}}, resp, WithTunnelChannel(&used))
		return used, err
	}
	// n consecutive RPCs over the stable set of n tunnels: each exactly once, each to the right handler
	used := map[string]int{}
	for i := 0; i < nt; i++ {
		tc, err := call(h.AsChannel())
		verifAssert(err == nil && tc != nil, "C12.multi-rpc-through-the-pooled-channel-succeeds")
		if tc == nil {
			return
		}
		e := byName(tc)
		verifAssert(e != nil, "C17.multi-with-tunnel-channel-names-an-open-tunnel")
		if e != nil {
			used[e.name]++
			verifAssert(e.calls == used[e.name] && e.sawName == e.name, "C12+C17.multi-rpc-ran-on-the-tunnel-that-with-tunnel-channel-names-and-saw-its-opening-metadata")
		}
	}
	for _, e := range ends {
		verifAssert(used[e.name] == 1, "C12.multi-n-consecutive-rpcs-use-each-tunnel-exactly-once")
	}
	// per key
	for _, k := range []string{"a", "b"} {
		want := 0
		for i := 0; i < nt; i++ {
			if keys[i] == k {
				want++
			}
		}
		kc := h.KeyAsChannel(k)
		verifAssert(kc.Ready() == (want > 0), "C12.multi-key-ready-iff-a-tunnel-with-that-key-is-open")
		seen := map[string]int{}
		for i := 0; i < want; i++ {
			tc, err := call(kc)
			verifAssert(err == nil && tc != nil, "C12.multi-rpc-through-the-keyed-channel-succeeds")
			if tc != nil {
				e := byName(tc)
				verifAssert(e != nil && keys[int(e.name[1]-'0')] == k, "C12.multi-keyed-channel-routes-only-to-tunnels-with-that-key")
				if e != nil {
					seen[e.name]++
					verifAssert(seen[e.name] == 1, "C12.multi-keyed-round-robin-uses-each-matching-tunnel-once")
				}
			}
		}
		if want == 0 {
			_, err := call(kc)
			verifAssert(status.Code(err) == codes.Unavailable, "C12.multi-no-matching-tunnel-means-unavailable")
		}
	}
	verifAssert(!h.KeyAsChannel("zzz").Ready() && !h.KeyAsChannel(nil).Ready(), "C12.multi-unknown-key-not-ready")

	// ---- one tunnel ends
	victim := verifChoice("victim", nt)
	how := verifChoice("how", 2)
	if how == 0 {
		ends[victim].rts.Stop()
	} else {
		for _, tc := range all {
			if nameOf(tc) == ends[victim].name {
				tc.Close()
			}
		}
	}
	verifDrain()
	verifCover("multi-one-tunnel-gone")
	verifAssert(ends[victim].done, "C04.multi-serve-of-the-ended-tunnel-returned")
	verifAssert(ends[victim].err == nil, "C04.multi-serve-ends-cleanly")
	rest := h.AllReverseTunnels()
	verifAssert(len(rest) == nt-1, "C12+C14.multi-ended-tunnel-leaves-the-registry")
	for _, tc := range rest {
		verifAssert(nameOf(tc) != ends[victim].name, "C12.multi-ended-tunnel-not-listed")
	}
	for i := 0; i < 2*nt; i++ {
		tc, err := call(h.AsChannel())
		verifAssert(err == nil && tc != nil && nameOf(tc) != ends[victim].name, "C12.multi-no-rpc-routed-to-the-ended-tunnel")
	}
	vk := keys[victim]
	left := 0
	for i := 0; i < nt; i++ {
		if i != victim && keys[i] == vk {
			left++
		}
	}
	verifAssert(h.KeyAsChannel(vk).Ready() == (left > 0), "C12.multi-key-readiness-follows-the-ended-tunnel")
	{
		// tunnels remain in the pool: waiting for readiness returns at once
		var werr error
		waited := false
		verifGo("pool-waiter", func() { werr = h.AsChannel().WaitForReady(context.Background()); waited = true })
		verifDrain()
		verifAssert(waited && werr == nil, "C12.multi-wait-for-ready-immediate-while-tunnels-remain")
	}
	if left > 0 {
		var werr error
		waited := false
		verifGo("key-waiter", func() { werr = h.KeyAsChannel(vk).WaitForReady(context.Background()); waited = true })
		verifDrain()
		verifAssert(waited && werr == nil, "C12.multi-wait-for-ready-immediate-while-a-matching-tunnel-remains")
	}
	if left == 0 {
		ctx, cancel := context.WithCancel(context.Background())
		var werr error
		waited := false
		verifGo("waiter", func() { werr = h.KeyAsChannel(vk).WaitForReady(ctx); waited = true })
		verifDrain()
		verifAssert(!waited, "C12.multi-wait-for-ready-blocks-once-the-last-matching-tunnel-is-gone")
		cancel()
		verifDrain()
		verifAssert(waited && werr == context.Canceled, "C12.multi-wait-for-ready-honours-its-context")
		// a tunnel with that key opens again: the keyed channel obtained at the very beginning sees it, and a
		// WaitForReady that was started on it while no such tunnel was open is released by its registration
		verifCover("multi-key-returns")
		verifAssert(!early[vk].Ready(), "C12.multi-early-keyed-channel-not-ready-while-no-matching-tunnel")
		var w2 error
		released := false
		verifGo("early-waiter", func() { w2 = early[vk].WaitForReady(context.Background()); released = true })
		verifDrain()
		verifAssert(!released, "C12.multi-early-waiter-waits")
		keys = append(keys[:3:3], vk)
		openEnd(3)
		verifAssert(released && w2 == nil, "C12.multi-a-waiter-is-released-by-the-next-matching-tunnel")
		verifAssert(early[vk].Ready(), "C12.multi-a-keyed-channel-obtained-earlier-follows-the-registry")
		tc, err := call(early[vk])
		verifAssert(err == nil && tc != nil && nameOf(tc) == "t3", "C12.multi-a-keyed-channel-obtained-earlier-routes-to-the-new-tunnel")
	}
	// ---- the others end, too
	for i, e := range ends {
		if i != victim {
			e.rts.Stop()
		}
	}
	verifDrain()
	verifAssert(len(h.AllReverseTunnels()) == 0 && !h.AsChannel().Ready(), "C12+C14.multi-registry-empty-at-the-end")
	_, err := call(h.AsChannel())
	verifAssert(status.Code(err) == codes.Unavailable, "C12.multi-no-tunnel-means-unavailable")
	// callbacks: one open then one close per tunnel
	for _, e := range ends {
		no, nc, order := 0, 0, true
		for _, ev := range events {
			if ev == "open-"+e.name {
				no++
				if nc > 0 {
					order = false
				}
			}
			if ev == "close-"+e.name {
				nc++
			}
		}
		verifAssert(no == 1 && nc == 1 && order, "C12.multi-exactly-one-open-callback-then-exactly-one-close-callback")
		verifAssert(e.done, "C04.multi-every-serve-returned")
	}
	verifAssert(verifLiveGoroutines() == 0, "C14.multi-no-goroutine-left")
}
