package grpctunnel

import (
	"context"
	"errors"
	"io"

	spb "google.golang.org/genproto/googleapis/rpc/status"
	"google.golang.org/grpc"
	"google.golang.org/grpc/codes"
	"google.golang.org/grpc/status"
	"google.golang.org/protobuf/types/known/emptypb"
	"google.golang.org/protobuf/types/known/wrapperspb"

	"github.com/fullstorydev/grpchan"
	"github.com/jhump/grpctunnel/tunnelpb"
)

// ---------------------------------------------------------------------------
// Conversations: whole frame sequences from the initial state of a tunnel end,
// where S-SRV-NEW / S-SRV-FRAME / S-CLI-FRAME take one step from an arbitrary
// valid state. They close the gap between "every state the step harnesses
// start from" and "every state a peer can actually drive the end into", for
// short sequences: a hostile or buggy peer sends any N frames.

// the services of a conversation: a bidi method whose handler reads to the end
// and then answers, a unary method, nothing else
type vConvLog struct {
	calls     map[int64]int // invocations per stream id (from the stream handed to the handler)
	svc       map[int64]string // the service whose handler ran for the id
	unaryReqs int           // requests unary handler bodies were run with
	unaryRuns int
	returns   int
}

func vConvHandlers(l *vConvLog) grpchan.HandlerMap {
	hm := grpchan.HandlerMap{}
	// two services with the same method names: "service/method" names the handler, not "method"
	for _, sn := range []string{"a", "b"} {
		vConvService(hm, l, sn)
	}
	return hm
}

func vConvService(hm grpchan.HandlerMap, l *vConvLog, sn string) {
	hm.RegisterService(&grpc.ServiceDesc{ServiceName: sn, HandlerType: (*any)(nil),
		Methods: []grpc.MethodDesc{{MethodName: "u", Handler: func(srv any, ctx context.Context, dec func(any) error, _ grpc.UnaryServerInterceptor) (any, error) {
			if ts, ok := grpc.ServerTransportStreamFromContext(ctx).(*tunnelServerTransportStream); ok {
				l.calls[ts.streamID]++
				l.svc[ts.streamID] = srv.(*vSvcImpl).name
			}
			defer func() { l.returns++ }()
			in := &wrapperspb.BytesValue{}
			if err := dec(in); err != nil {
				return nil, err
			}
			l.unaryRuns++
			return &wrapperspb.BytesValue{Value: []byte{7}}, nil
		}}},
		Streams: []grpc.StreamDesc{{StreamName: "s", ClientStreams: true, ServerStreams: true, Handler: func(srv any, st grpc.ServerStream) error {
			if ts, ok := st.(*tunnelServerStream); ok {
				l.calls[ts.streamID]++
				l.svc[ts.streamID] = srv.(*vSvcImpl).name
			}
			defer func() { l.returns++ }()
			for {
				in := &wrapperspb.BytesValue{}
				if err := st.RecvMsg(in); err != nil {
					if err == io.EOF {
						break
					}
					return err
				}
			}
			return st.SendMsg(&wrapperspb.BytesValue{Value: []byte{8}})
		}}},
	}, &vSvcImpl{sn})
}

// S-SRV-CONV (C03 C08 C09 C13 C14 C16): the server end from its initial state,
// fed a first new_stream and then N arbitrary frames (any kind, ids 1..3 or any
// int64, any method / revision / window / size / payload), with the handlers
// running between the frames or not. Whatever the peer sends: no panic, no
// wedge, the receive loop never blocks, the tunnel ends exactly at the first
// tunnel-level violation (a reference model of the id rules decides which that
// is) and not before, every stream ever opened gets exactly one close frame,
// at most one handler invocation per id, bounded queues, nothing left behind.
func verifH_SrvConversation() {
	n := verifParam("frames")
	carCtx, carCancel := context.WithCancel(context.Background())
	defer carCancel()
	car := &vSrvCarrier{ctx: carCtx, endErr: io.EOF}
	log := &vConvLog{calls: map[int64]int{}, svc: map[int64]string{}}
	wantSvc := map[int64]string{}
	negotiated := verifBool("clientAcceptsSettings")
	svr := &tunnelServer{stream: car, services: vConvHandlers(log), tunnelOpts: &tunnelOpts{}, clientAcceptsSettings: negotiated,
		isClosing: func() bool { return false }, streams: map[int64]*tunnelServerStream{}, lastSeen: -1}

	// reference model of the identifier rules
	refLast := int64(-1)
	opened := map[int64]bool{} // ids for which a new_stream was taken (accepted or refused)
	known := map[int64]bool{}  // ... with a method that exists
	violationAt := -1

	anyRevZero := false
	newStream := func(id int64, first bool) *tunnelpb.ClientToServer {
		var m string
		var rev tunnelpb.ProtocolRevision
		if first {
			m = []string{"a/s", "/a/u"}[verifChoice("method", 2)]
			rev = tunnelpb.ProtocolRevision(verifChoice("revision", 2)) // 0, 1
		} else {
			m = []string{"a/s", "b/s", "a/nope", ""}[verifChoice("method", 4)]
			rev = tunnelpb.ProtocolRevision(1 + verifChoice("revision", 2)) // 1, 2 (unsupported)
		}
		if rev == 0 {
			anyRevZero = true
		}
		if id > refLast {
			refLast = id
			opened[id] = true
			known[id] = (m == "a/s" || m == "/a/u" || m == "b/s") && rev <= 1
			wantSvc[id] = "a"
			if m == "b/s" {
				wantSvc[id] = "b"
			}
		} else if violationAt < 0 {
			violationAt = len(car.script)
		}
		return &tunnelpb.ClientToServer{StreamId: id, Frame: &tunnelpb.ClientToServer_NewStream{NewStream: &tunnelpb.NewStream{
			MethodName: m, ProtocolRevision: rev, InitialWindowSize: verifU32("window")}}}
	}
	pickID := func() int64 {
		if k := verifChoice("id", 4); k < 3 {
			return int64(k + 1)
		}
		return verifI64("wildId")
	}
	car.script = append(car.script, newStream(1, true))
	for i := 0; i < n; i++ {
		id := pickID()
		kind := verifChoice("kind", 7)
		if kind == 0 {
			car.script = append(car.script, newStream(id, false))
			continue
		}
		if id > refLast && violationAt < 0 {
			violationAt = len(car.script)
		}
		var fr tunnelpb.ClientToServerFrame
		switch kind {
		case 1:
			fr = &tunnelpb.ClientToServer_RequestMessage{RequestMessage: &tunnelpb.MessageData{Size: verifU32("size"), Data: verifBytes("data", 1)}}
		case 2:
			fr = &tunnelpb.ClientToServer_MoreRequestData{MoreRequestData: verifBytes("data", 1)}
		case 3:
			fr = &tunnelpb.ClientToServer_HalfClose{HalfClose: &emptypb.Empty{}}
		case 4:
			fr = &tunnelpb.ClientToServer_Cancel{Cancel: &emptypb.Empty{}}
		case 5:
			fr = &tunnelpb.ClientToServer_WindowUpdate{WindowUpdate: verifU32("update")}
		case 6:
			fr = nil
		}
		car.script = append(car.script, &tunnelpb.ClientToServer{StreamId: id, Frame: fr})
	}
	between := verifParam("between") != 0 && verifBool("handlersRunBetweenFrames")
	if between {
		// the peer is slow: after each frame everything comes to rest before the next one arrives
		car.onRecv = func() {
			if car.pos > 0 && car.pos < len(car.script) {
				b0 := verifBlockedCount()
				verifDrain()
				car.drainBlks += verifBlockedCount() - b0
			}
		}
	}
	// bounded memory: what the streams hold queued when the script has been consumed
	var queued uint64
	car.onQuiesce = func() {
		svr.mu.RLock()
		for _, st := range svr.streams {
			if fr, ok := st.receiver.(*defaultReceiver[tunnelpb.ClientToServerFrame]); ok {
				q := uint64(0)
				fr.mu.Lock()
				for e := fr.items.Front(); e != nil; e = e.Next() {
					q += uint64(fr.measure(e.Value.(tunnelpb.ClientToServerFrame)))
				}
				fr.mu.Unlock()
				if q > queued {
					queued = q
				}
			}
		}
		svr.mu.RUnlock()
	}

	err := svr.serve(nil)
	loopBlocks := verifBlockedCount() - car.drainBlks
	verifDrain()

	// (and when a frame finishes a stream whose handler sits in SendMsg, the loop waits for the write lock
	// that the cancellation makes the handler release: a bounded wait, S-SRV-BLOCKED; getting here at all
	// shows that the loop was not wedged - a wedge ends the path as DEADLOCK)
	if !anyRevZero && !between {
		// (a revision-zero stream has no flow control: its one-slot queue makes the loop wait for the handler)
		verifAssert(loopBlocks == 0, "C03+C09.conv-receive-loop-never-blocks")
	}
	vNoLoopSends(car, "conv")
	if violationAt >= 0 {
		verifCover("conv-tunnel-level-violation")
		verifAssert(err != nil, "C08+C09.conv-tunnel-level-violation-ends-the-tunnel-with-an-error")
		verifAssert(car.pos == violationAt+1, "C03+C08+C09.conv-tunnel-ends-exactly-at-the-first-tunnel-level-violation")
	} else {
		verifCover("conv-no-tunnel-level-violation")
		verifAssert(err == nil, "C03+C09.conv-stream-level-violations-never-end-the-tunnel")
		verifAssert(car.pos == len(car.script), "C09.conv-every-frame-consumed")
	}
	verifAssert(queued <= initialWindowSize, "C06+C09.conv-queued-bytes-within-one-window")
	// every stream that was opened before the tunnel ended: exactly one close frame, whatever followed
	for id := range opened {
		seen := false
		for i, f := range car.script {
			if f.StreamId == id && i < car.pos {
				if _, ok := f.Frame.(*tunnelpb.ClientToServer_NewStream); ok {
					seen = true
				}
			}
		}
		if !seen {
			continue
		}
		nclose, afterClose, nhdr := 0, 0, 0
		for _, f := range car.framesFor(id) {
			if _, isClose := vCloseCode(f); isClose {
				nclose++
			} else if nclose > 0 {
				afterClose++
			}
			if _, ok := f.Frame.(*tunnelpb.ServerToClient_ResponseHeaders); ok {
				nhdr++
			}
		}
		verifAssert(nclose == 1, "C09+C13.conv-every-opened-stream-gets-exactly-one-close-frame")
		verifAssert(nhdr <= 1, "C13.conv-headers-at-most-once")
		verifAssert(log.calls[id] <= 1, "C08.conv-at-most-one-invocation-per-id")
		if !known[id] {
			verifAssert(log.calls[id] == 0, "C08+C09.conv-no-handler-for-a-refused-stream")
		} else if log.calls[id] == 1 {
			verifAssert(log.svc[id] == wantSvc[id], "C08.conv-exactly-the-named-services-handler-whatever-ran-before-on-the-tunnel")
		}
		_ = afterClose
	}
	for _, f := range car.sent {
		if f.StreamId == -1 {
			_, isSettings := f.Frame.(*tunnelpb.ServerToClient_Settings)
			verifAssert(isSettings && negotiated, "C11+C13.conv-id-minus-one-only-for-negotiated-settings")
			continue
		}
		verifAssert(opened[f.StreamId], "C03+C13.conv-no-frame-for-a-stream-the-peer-never-opened")
	}
	total := 0
	for _, c := range log.calls {
		total += c
	}
	verifAssert(log.returns == total, "C04+C14.conv-every-handler-returned")
	verifAssert(log.unaryRuns <= total, "C16.conv-unary-bodies")
	svr.mu.RLock()
	left := len(svr.streams)
	svr.mu.RUnlock()
	verifAssert(left == 0, "C14.conv-stream-table-empty-after-the-tunnel")
	verifAssert(verifLiveGoroutines() == 0, "C14.conv-no-goroutine-left")
	verifAssert(!verifMutexHeld(&svr.mu), "C15.conv-server-mutex-released")
}

// S-CLI-CONV (C03 C04 C07 C09 C14): the client end with two RPCs started, fed N
// arbitrary server frames (any kind, the ids of the two RPCs / a finished id /
// any int64, any status code, any size / payload / window update). Whatever
// the peer sends: no panic, no wedge, the tunnel ends exactly at the first
// frame for an id that was never created, every caller gets a terminal result
// once its RPC or the tunnel has ended, queues stay within a window, nothing is
// left behind.
func verifH_CliConversation() {
	n := verifParam("frames")
	car := vNewCliCarrier(context.Background())
	rev1 := verifBool("flowControl")
	c := vNewCliChannel(car, 0, false)
	if rev1 {
		c.useRevision = tunnelpb.ProtocolRevision_REVISION_ONE
		c.settings = &tunnelpb.Settings{InitialWindowSize: verifU32("peerWindow")}
	}
	// id 1: an RPC that has already finished (cancelled by its caller); ids 2, 3: live
	ctx1, cancel1 := context.WithCancel(context.Background())
	s1, err := c.newStream(ctx1, true, true, "a/s")
	verifAssume(err == nil)
	cancel1()
	verifDrain()
	verifAssume(s1.done.Load() != nil)
	s2, err := c.newStream(context.Background(), true, true, "a/s")
	verifAssume(err == nil)
	s3, err := c.newStream(context.Background(), false, false, "a/u")
	verifAssume(err == nil)
	sentBefore := len(car.sent)

	violationAt := -1
	var script []*tunnelpb.ServerToClient
	closed := map[int64]bool{}
	for i := 0; i < n; i++ {
		var id int64
		if k := verifChoice("id", 4); k < 3 {
			id = int64(k + 1)
		} else {
			id = verifI64("wildId")
		}
		// (the client cannot tell an id it has finished with from one below its counter that it never
		// used - zero, negative: both are ignored; only an id above the counter was "never created")
		if id > 3 && violationAt < 0 {
			violationAt = i
		}
		var fr tunnelpb.ServerToClientFrame
		switch verifChoice("kind", 7) {
		case 0:
			fr = &tunnelpb.ServerToClient_ResponseHeaders{ResponseHeaders: &tunnelpb.Metadata{Md: map[string]*tunnelpb.Metadata_Values{"hk": {Val: []string{"v"}}}}}
		case 1:
			fr = &tunnelpb.ServerToClient_ResponseMessage{ResponseMessage: &tunnelpb.MessageData{Size: verifU32("size"), Data: verifBytes("data", 1)}}
		case 2:
			fr = &tunnelpb.ServerToClient_MoreResponseData{MoreResponseData: verifBytes("data", 1)}
		case 3:
			fr = &tunnelpb.ServerToClient_CloseStream{CloseStream: &tunnelpb.CloseStream{Status: &spb.Status{Code: verifI32("code"), Message: "m"}}}
			if violationAt < 0 {
				closed[id] = true
			}
		case 4:
			fr = &tunnelpb.ServerToClient_WindowUpdate{WindowUpdate: verifU32("update")}
		case 5:
			fr = &tunnelpb.ServerToClient_Settings{Settings: &tunnelpb.Settings{}}
			if violationAt < 0 {
				closed[id] = true // a settings frame in mid-stream fails that RPC
			}
		case 6:
			fr = nil
			if violationAt < 0 {
				closed[id] = true
			}
		}
		script = append(script, &tunnelpb.ServerToClient{StreamId: id, Frame: fr})
	}
	// the receive loop, frame by frame (it is the channel's recvLoop body: look the stream up, hand the frame over)
	consumed := 0
	var loopErr error
	for _, f := range script {
		str, err := c.getStream(f.StreamId)
		consumed++
		if err != nil {
			loopErr = err
			c.close(err)
			break
		}
		str.acceptServerFrame(f.Frame)
	}
	verifDrain()
	if violationAt >= 0 {
		verifCover("cli-conv-tunnel-level-violation")
		verifAssert(loopErr != nil && consumed == violationAt+1, "C08+C09.cli-conv-tunnel-ends-exactly-at-the-first-frame-for-a-stream-never-created")
		verifAssert(!vChanOpenRO(c.Done()) && c.Err() != nil, "C04+C09.cli-conv-tunnel-level-violation-ends-the-tunnel-with-an-error")
		// every in-flight call ends non-OK
		for _, st := range []*tunnelClientStream{s2, s3} {
			d := st.done.Load()
			verifAssert(d != nil, "C04.cli-conv-in-flight-call-ends-with-the-tunnel")
			if d != nil && !closed[st.streamID] {
				verifAssert(d.error != io.EOF, "C04.cli-conv-call-cut-by-the-tunnel-is-not-ok")
			}
		}
	} else {
		verifCover("cli-conv-no-tunnel-level-violation")
		verifAssert(loopErr == nil && consumed == n, "C03+C09.cli-conv-stream-level-violations-never-end-the-tunnel")
		verifAssert(vChanOpenRO(c.Done()) && c.Err() == nil, "C03+C09.cli-conv-tunnel-stays-up")
		for _, st := range []*tunnelClientStream{s2, s3} {
			d := st.done.Load()
			if !closed[st.streamID] {
				// data frames may still fail the RPC (overrun): but only with an error, and only this RPC
				if d != nil {
					verifAssert(d.error != io.EOF && d.error != nil, "C02+C09.cli-conv-rpc-fails-only-with-an-error")
				}
			} else {
				verifAssert(d != nil, "C02+C09.cli-conv-close-frame-or-protocol-error-ends-that-rpc")
			}
			_, inTable := c.streams[st.streamID]
			verifAssert(inTable == (d == nil), "C14.cli-conv-table-holds-exactly-the-rpcs-in-flight")
		}
	}
	// the finished RPC stays finished with its own outcome
	verifAssert(status.Code(s1.done.Load().error) == codes.Canceled, "C07.cli-conv-late-frames-for-a-finished-rpc-have-no-effect")
	// queues within one window
	for _, st := range []*tunnelClientStream{s2, s3} {
		if fr, ok := st.receiver.(*defaultReceiver[tunnelpb.ServerToClientFrame]); ok {
			q := uint64(0)
			fr.mu.Lock()
			for e := fr.items.Front(); e != nil; e = e.Next() {
				q += uint64(fr.measure(e.Value.(tunnelpb.ServerToClientFrame)))
			}
			w := uint64(fr.currentWindow)
			fr.mu.Unlock()
			verifAssert(q <= initialWindowSize, "C06+C09.cli-conv-queued-bytes-within-one-window")
			// the bound that is enforced is the window this end advertised, whatever the peer's settings say
			if st.done.Load() == nil {
				verifAssert(q+w == initialWindowSize, "C06+C09.cli-conv-receiver-enforces-the-window-this-end-advertised")
			}
		}
	}
	// a caller that now asks gets a terminal result or keeps waiting, never a fabricated message after the end
	for _, st := range []*tunnelClientStream{s2, s3} {
		if st.done.Load() != nil {
			m := &wrapperspb.BytesValue{}
			var rerr error
			for k := 0; k < n+1; k++ {
				if rerr = st.RecvMsg(m); rerr != nil {
					break
				}
			}
			verifAssert(rerr != nil, "C01+C09.cli-conv-finished-rpc-reads-end-with-an-error-or-eof")
		}
	}
	// frames the client emitted in reaction: only cancels, only for its own streams, at most one each
	ncancel := map[int64]int{}
	for _, f := range car.sent[sentBefore:] {
		_, isCancel := f.Frame.(*tunnelpb.ClientToServer_Cancel)
		_, isUpd := f.Frame.(*tunnelpb.ClientToServer_WindowUpdate)
		verifAssert(isCancel || (isUpd && rev1), "C13.cli-conv-reaction-frames-are-cancels-or-credit")
		if isCancel {
			ncancel[f.StreamId]++
		}
	}
	for id, k := range ncancel {
		verifAssert(k <= 1 && id >= 1 && id <= 3, "C07+C13.cli-conv-at-most-one-cancel-per-own-stream")
	}
	c.close(errors.New("done"))
	verifDrain()
	verifAssert(verifLiveGoroutines() == 0, "C14.cli-conv-no-goroutine-left")
	verifAssert(!verifMutexHeld(&c.mu) && !verifMutexHeld(&s2.metaMu) && !verifMutexHeld(&s3.metaMu), "C15.cli-conv-locks-released")
}

// S-CLI-INTERLEAVE (C01 C03): the client's real receive loop fed the frames of two responses on two
// RPCs, interleaved in every order that keeps each RPC's own frames in order (envelope, continuation,
// continuation), with symbolic payload bytes: each caller gets its own message, whole and unmixed, then
// its own status.
func verifH_CliInterleave() {
	car := vNewCliCarrier(context.Background())
	car.hold = true
	c := vNewCliChannel(car, 0, false)
	c.useRevision = tunnelpb.ProtocolRevision_REVISION_ONE
	s1, err := c.newStream(context.Background(), true, true, "a/s")
	verifAssume(err == nil)
	s2, err := c.newStream(context.Background(), true, true, "a/s")
	verifAssume(err == nil)
	p1, p2 := verifBytes("payload1", 6), verifBytes("payload2", 6)
	verifAssume(len(p1) == 6 && len(p2) == 6)
	w1, w2 := verifWire(p1), verifWire(p2)
	mk := func(id int64, w []byte, code int32) []*tunnelpb.ServerToClient {
		a, b := len(w)/3, 2*len(w)/3
		return []*tunnelpb.ServerToClient{
			{StreamId: id, Frame: &tunnelpb.ServerToClient_ResponseMessage{ResponseMessage: &tunnelpb.MessageData{Size: uint32(len(w)), Data: w[:a]}}},
			{StreamId: id, Frame: &tunnelpb.ServerToClient_MoreResponseData{MoreResponseData: w[a:b]}},
			{StreamId: id, Frame: &tunnelpb.ServerToClient_MoreResponseData{MoreResponseData: w[b:]}},
			{StreamId: id, Frame: &tunnelpb.ServerToClient_CloseStream{CloseStream: &tunnelpb.CloseStream{Status: &spb.Status{Code: code, Message: "m"}}}},
		}
	}
	f1, f2 := mk(s1.streamID, w1, 0), mk(s2.streamID, w2, 5)
	// every merge of the two sequences
	i, j := 0, 0
	for i < len(f1) || j < len(f2) {
		if j == len(f2) || (i < len(f1) && verifBool("nextFromFirst")) {
			car.script = append(car.script, f1[i])
			i++
		} else {
			car.script = append(car.script, f2[j])
			j++
		}
	}
	verifGo("receive-loop", func() { c.recvLoop() })
	verifDrain()
	verifAssert(car.pos == len(car.script) && vChanOpenRO(c.Done()), "C03.interleave-every-frame-consumed-and-the-tunnel-is-up")
	m1, m2 := &wrapperspb.BytesValue{}, &wrapperspb.BytesValue{}
	// the second RPC is read first
	e2 := s2.RecvMsg(m2)
	verifAssert(e2 == nil, "C01.interleave-second-rpc-gets-a-message")
	verifAssertBytesEq(m2.Value, p2, "C01.interleave-second-rpc-gets-its-own-message-whole")
	verifAssert(status.Code(s2.RecvMsg(&wrapperspb.BytesValue{})) == codes.NotFound, "C02.interleave-second-rpc-gets-its-own-status")
	e1 := s1.RecvMsg(m1)
	verifAssert(e1 == nil, "C01.interleave-first-rpc-gets-a-message")
	verifAssertBytesEq(m1.Value, p1, "C01.interleave-first-rpc-gets-its-own-message-whole")
	verifAssert(s1.RecvMsg(&wrapperspb.BytesValue{}) == io.EOF, "C01+C02.interleave-first-rpc-ends-ok-after-its-message")
	verifCover("interleaved")
	close(car.hangup)
	verifDrain()
	verifAssert(verifLiveGoroutines() == 0, "C14.interleave-no-goroutine-left")
}

// S-SRV-INTERLEAVE (C01 C03 C08): the server's real receive loop, two RPCs opened back to back, their
// request frames (envelope, two continuations, half-close) interleaved in every order: each handler gets
// its own request, whole and unmixed, then end-of-stream; each is invoked exactly once.
func verifH_SrvInterleave() {
	car := &vSrvCarrier{ctx: context.Background(), endErr: io.EOF}
	got := map[int64][]byte{}
	eof := map[int64]bool{}
	calls := map[int64]int{}
	hm := grpchan.HandlerMap{}
	hm.RegisterService(&grpc.ServiceDesc{ServiceName: "a", HandlerType: (*any)(nil), Streams: []grpc.StreamDesc{{StreamName: "s", ClientStreams: true, ServerStreams: true,
		Handler: func(srv any, st grpc.ServerStream) error {
			id := st.(*tunnelServerStream).streamID
			calls[id]++
			in := &wrapperspb.BytesValue{}
			if err := st.RecvMsg(in); err != nil {
				return err
			}
			got[id] = in.Value
			eof[id] = st.RecvMsg(&wrapperspb.BytesValue{}) == io.EOF
			return nil
		}}}}, &vSvcImpl{"a"})
	svr := &tunnelServer{stream: car, services: hm, tunnelOpts: &tunnelOpts{}, isClosing: func() bool { return false },
		streams: map[int64]*tunnelServerStream{}, lastSeen: -1}
	p1, p2 := verifBytes("payload1", 6), verifBytes("payload2", 6)
	verifAssume(len(p1) == 6 && len(p2) == 6)
	rev := tunnelpb.ProtocolRevision(verifChoice("revision", 2))
	mk := func(id int64, w []byte) []*tunnelpb.ClientToServer {
		a, b := len(w)/3, 2*len(w)/3
		return []*tunnelpb.ClientToServer{
			{StreamId: id, Frame: &tunnelpb.ClientToServer_RequestMessage{RequestMessage: &tunnelpb.MessageData{Size: uint32(len(w)), Data: w[:a]}}},
			{StreamId: id, Frame: &tunnelpb.ClientToServer_MoreRequestData{MoreRequestData: w[a:b]}},
			{StreamId: id, Frame: &tunnelpb.ClientToServer_MoreRequestData{MoreRequestData: w[b:]}},
			{StreamId: id, Frame: &tunnelpb.ClientToServer_HalfClose{HalfClose: &emptypb.Empty{}}},
		}
	}
	for _, id := range []int64{1, 2} {
		car.script = append(car.script, &tunnelpb.ClientToServer{StreamId: id, Frame: &tunnelpb.ClientToServer_NewStream{NewStream: &tunnelpb.NewStream{
			MethodName: "a/s", ProtocolRevision: rev, InitialWindowSize: initialWindowSize}}})
	}
	f1, f2 := mk(1, verifWire(p1)), mk(2, verifWire(p2))
	i, j := 0, 0
	for i < len(f1) || j < len(f2) {
		if j == len(f2) || (i < len(f1) && verifBool("nextFromFirst")) {
			car.script = append(car.script, f1[i])
			i++
		} else {
			car.script = append(car.script, f2[j])
			j++
		}
	}
	if rev == 0 {
		// no flow control: the one-slot queue needs its reader - the handlers run as the frames arrive
		car.onRecv = func() {
			if car.pos > 2 {
				verifDrain()
			}
		}
	}
	err := svr.serve(nil)
	verifDrain()
	verifAssert(err == nil && car.pos == len(car.script), "C03.srv-interleave-every-frame-consumed")
	verifAssert(calls[1] == 1 && calls[2] == 1, "C08.srv-interleave-one-invocation-each")
	verifAssertBytesEq(got[1], p1, "C01.srv-interleave-first-handler-gets-its-own-request-whole")
	verifAssertBytesEq(got[2], p2, "C01.srv-interleave-second-handler-gets-its-own-request-whole")
	verifAssert(eof[1] && eof[2], "C01.srv-interleave-end-of-stream-after-the-request")
	verifCover("srv-interleaved")
	verifAssert(verifLiveGoroutines() == 0, "C14.srv-interleave-no-goroutine-left")
}
