package grpctunnel

import (
	"context"
	"io"

	spb "google.golang.org/genproto/googleapis/rpc/status"
	"google.golang.org/grpc"
	"google.golang.org/grpc/codes"
	"google.golang.org/grpc/metadata"
	"google.golang.org/grpc/status"
	"google.golang.org/protobuf/types/known/emptypb"
	"google.golang.org/protobuf/types/known/wrapperspb"

	"github.com/jhump/grpctunnel/tunnelpb"
)

// the frames a server emits for one RPC whose handler set headers H, sent the
// responses R and returned status (code, "msg") with trailers T
func vPeerFrames(id int64, withHeaders bool, responses [][]byte, code int32, withTrailers bool) []*tunnelpb.ServerToClient {
	var out []*tunnelpb.ServerToClient
	if withHeaders {
		out = append(out, &tunnelpb.ServerToClient{StreamId: id, Frame: &tunnelpb.ServerToClient_ResponseHeaders{
			ResponseHeaders: &tunnelpb.Metadata{Md: map[string]*tunnelpb.Metadata_Values{"hk": {Val: []string{"h1", "h2"}}}}}})
	}
	for _, r := range responses {
		w := verifWire(r)
		out = append(out, &tunnelpb.ServerToClient{StreamId: id, Frame: &tunnelpb.ServerToClient_ResponseMessage{
			ResponseMessage: &tunnelpb.MessageData{Size: uint32(len(w)), Data: w}}})
	}
	cs := &tunnelpb.CloseStream{Status: &spb.Status{Code: code, Message: "msg"}}
	if withTrailers {
		cs.ResponseTrailers = &tunnelpb.Metadata{Md: map[string]*tunnelpb.Metadata_Values{"tk": {Val: []string{"t1"}}}}
	}
	out = append(out, &tunnelpb.ServerToClient{StreamId: id, Frame: &tunnelpb.ServerToClient_CloseStream{CloseStream: cs}})
	return out
}

type vPeer struct {
	c      *tunnelChannel
	frames []*tunnelpb.ServerToClient
	pos    int
	msgs   int  // response messages delivered so far
	closed bool // close frame delivered
}

// deliver lets the receive loop process up to n more frames (as the real
// loop would: look the stream up, hand the frame over).
func (p *vPeer) deliver(n int) {
	for ; n > 0 && p.pos < len(p.frames); n-- {
		f := p.frames[p.pos]
		p.pos++
		switch f.Frame.(type) {
		case *tunnelpb.ServerToClient_ResponseMessage:
			p.msgs++
		case *tunnelpb.ServerToClient_CloseStream:
			p.closed = true
		}
		str, err := p.c.getStream(f.StreamId)
		if err == nil {
			str.acceptServerFrame(f.Frame)
		}
	}
}

// at a gap between two application operations any number of pending frames may arrive
func (p *vPeer) gap() {
	rest := len(p.frames) - p.pos
	if rest > 0 {
		p.deliver(verifChoice("arrive", rest+1))
	}
}

// S-CSTREAM (C01 C02 C07 C13 C16): the four call shapes exactly as generated
// stubs drive a ClientStream (Send*, CloseSend, Recv*), with the peer's frames
// (headers, 0-2 responses, close(status, trailers)) arriving at any position
// between the application's operations. The caller must observe the handler's
// outcome.
func verifH_CliStreamShapes() {
	car := vNewCliCarrier(context.Background())
	c := vNewCliChannel(car, 0, false)
	shape := verifChoice("shape", 3) // 0 client-streaming, 1 server-streaming, 2 bidi
	cs, ss := shape != 1, shape != 0
	var hdrT, tlrT metadata.MD
	st, err := c.newStream(context.Background(), cs, ss, "svc/m", grpc.Header(&hdrT), grpc.Trailer(&tlrT))
	verifAssume(err == nil)
	// what the handler did
	withHeaders := verifBool("handlerSetHeaders")
	nresp := verifChoice("responses", 3)
	if shape == 0 {
		nresp = verifChoice("responses1", 2) // a conforming handler answers a client-streaming call with 0 (error) or 1 message
	}
	code := int32(0)
	if verifBool("handlerFails") {
		code = verifI32("code")
		verifAssume(code != 0)
	}
	if shape == 0 && code == 0 {
		nresp = 1
	}
	withTrailers := verifBool("handlerSetTrailers")
	var responses [][]byte
	for i := 0; i < nresp; i++ {
		responses = append(responses, []byte{byte(10 + i), verifU8("rbyte")})
	}
	peer := &vPeer{c: c, frames: vPeerFrames(st.streamID, withHeaders, responses, code, withTrailers)}

	// the application, as generated code drives the stream
	nsend := 1
	if cs {
		nsend = verifChoice("sends", 2) + shape/2 // client-streaming: 0-1 sends, bidi: 1-2
	}
	var got [][]byte
	var final error
	sendFailed := false
	for i := 0; i < nsend && !sendFailed; i++ {
		peer.gap()
		if err := st.SendMsg(&wrapperspb.BytesValue{Value: []byte{byte(i)}}); err != nil {
			// generated Send returns the error; the application then asks for the outcome
			verifAssert(st.done.Load() != nil, "C02.send-fails-only-when-rpc-finished")
			sendFailed = true
		}
	}
	peer.gap()
	if shape == 0 {
		// CloseAndRecv
		if err := st.CloseSend(); err != nil {
			final = err
		} else {
			peer.deliver(len(peer.frames)) // the rest arrives while the caller waits
			m := &wrapperspb.BytesValue{}
			if err := st.RecvMsg(m); err != nil {
				final = err
			} else {
				got = append(got, m.Value)
			}
		}
	} else {
		err := st.CloseSend()
		verifAssert(err == nil || st.done.Load() != nil, "C02+C13.close-send-fails-only-when-rpc-finished")
		for k := 0; k < 4; k++ {
			peer.gap()
			// Recv blocks until the next response or the close frame has arrived
			for peer.msgs <= len(got) && !peer.closed {
				peer.deliver(1)
			}
			m := &wrapperspb.BytesValue{}
			if err := st.RecvMsg(m); err != nil {
				final = err
				break
			}
			got = append(got, m.Value)
		}
	}
	peer.deliver(len(peer.frames))

	// ---- the caller's view must be the handler's outcome
	if code == 0 {
		verifCover("ok-outcome")
		if shape == 0 {
			verifAssert(final == nil, "C02.client-streaming-ok-outcome-delivered")
			verifAssert(len(got) == 1, "C02.client-streaming-response-delivered")
		} else {
			verifAssert(final == io.EOF, "C02.ok-status-ends-with-eof")
			verifAssert(len(got) == nresp, "C01.all-responses-delivered-on-ok")
		}
	} else {
		verifCover("error-outcome")
		verifAssert(final != nil && final != io.EOF, "C02.error-status-delivered")
		if final != nil {
			verifAssert(int32(status.Code(final)) == code, "C02.status-code-exact")
			s, _ := status.FromError(final)
			verifAssert(s.Message() == "msg", "C02.status-message-exact")
		}
	}
	for i, r := range got {
		verifAssert(i < len(responses) && len(r) == 2 && r[0] == responses[i][0] && r[1] == responses[i][1], "C01.responses-in-order-and-intact")
	}
	if final != nil {
		tr := st.Trailer()
		if withTrailers {
			verifAssert(len(tr["tk"]) == 1 && tr["tk"][0] == "t1", "C02.trailers-available-after-terminal-result")
			verifAssert(len(tlrT["tk"]) == 1, "C02.trailer-call-option-set")
		} else {
			verifAssert(len(tr) == 0, "C02.no-trailers-fabricated")
		}
		h, herr := st.Header()
		if withHeaders {
			verifAssert(herr == nil && len(h["hk"]) == 2 && h["hk"][1] == "h2", "C02.headers-available")
			verifAssert(len(hdrT["hk"]) == 2, "C02.header-call-option-set")
		} else {
			verifAssert(len(h) == 0, "C02.no-headers-fabricated")
		}
	}
	// protocol on the wire: new_stream first, at most one half-close, no data after it, no cancel
	halfCloses, afterHalf, cancels := 0, 0, 0
	for i, f := range car.sent {
		switch f.Frame.(type) {
		case *tunnelpb.ClientToServer_NewStream:
			verifAssert(i == 0, "C08+C13.new-stream-first")
		case *tunnelpb.ClientToServer_HalfClose:
			halfCloses++
		case *tunnelpb.ClientToServer_RequestMessage, *tunnelpb.ClientToServer_MoreRequestData:
			if halfCloses > 0 {
				afterHalf++
			}
		case *tunnelpb.ClientToServer_Cancel:
			cancels++
		}
	}
	verifAssert(halfCloses <= 1, "C13.at-most-one-half-close")
	verifAssert(afterHalf == 0, "C13.no-request-data-after-half-close")
	verifAssert(cancels == 0, "C07+C13.no-cancel-for-a-completed-rpc")
	_, still := c.streams[st.streamID]
	verifAssert(!still, "C14.completed-rpc-leaves-table")
	verifDrain()
	verifAssert(verifLiveGoroutines() == 0, "C14.completed-rpc-no-goroutine-left")
}

// S-INVOKE (C02 C16): a unary call through Invoke; the peer answers with 0, 1
// or 2 response messages and any status while the caller is waiting.
func verifH_Invoke() {
	car := vNewCliCarrier(context.Background())
	c := vNewCliChannel(car, 0, false)
	nresp := verifChoice("responses", 3)
	code := int32(0)
	if verifBool("handlerFails") {
		code = verifI32("code")
		verifAssume(code != 0)
	}
	withTrailers := verifBool("trailers")
	var responses [][]byte
	for i := 0; i < nresp; i++ {
		responses = append(responses, []byte{byte(10 + i), verifU8("rbyte")})
	}
	split := verifBool("splitFirstResponse")
	verifGo("peer", func() {
		// the answer arrives once the request is on the wire
		frames := vPeerFrames(1, verifBool("headers"), responses, code, withTrailers)
		if split && nresp > 0 {
			// first response in two frames
			for i, f := range frames {
				if rm, ok := f.Frame.(*tunnelpb.ServerToClient_ResponseMessage); ok {
					full := rm.ResponseMessage.Data
					rm.ResponseMessage.Data = full[:1]
					more := &tunnelpb.ServerToClient{StreamId: 1, Frame: &tunnelpb.ServerToClient_MoreResponseData{MoreResponseData: full[1:]}}
					frames = append(frames[:i+1], append([]*tunnelpb.ServerToClient{more}, frames[i+1:]...)...)
					break
				}
			}
		}
		p := &vPeer{c: c, frames: frames}
		p.deliver(len(frames))
	})
	var tlrT metadata.MD
	var tc TunnelChannel
	resp := &wrapperspb.BytesValue{}
	err := c.Invoke(context.Background(), "svc/u", &wrapperspb.BytesValue{Value: []byte{1}}, resp, grpc.Trailer(&tlrT), WithTunnelChannel(&tc))
	if code == 0 && nresp == 1 {
		verifCover("unary-ok")
		verifAssert(err == nil, "C02+C16.unary-ok")
		verifAssert(len(resp.Value) == 2 && resp.Value[0] == 10 && resp.Value[1] == responses[0][1], "C01+C02.unary-response-intact")
		if withTrailers {
			verifAssert(len(tlrT["tk"]) == 1, "C02.unary-trailer-option-set")
		}
	} else {
		verifAssert(err != nil, "C16.unary-no-success-unless-exactly-one-response-and-ok")
		if code != 0 && nresp <= 1 {
			verifCover("unary-error")
			verifAssert(int32(status.Code(err)) == code, "C02.unary-status-exact")
		}
		if nresp == 2 && code == 0 {
			verifCover("unary-two-responses")
			verifAssert(status.Code(err) == codes.Internal, "C16.unary-two-responses-internal")
		}
	}
	verifAssert(tc == TunnelChannel(c), "C17.unary-with-tunnel-channel")
	verifDrain()
	_, still := c.streams[1]
	verifAssert(!still, "C14.unary-leaves-table")
	verifAssert(verifLiveGoroutines() == 0, "C14.unary-no-goroutine-left")
}

// a receiver monitor that checks what is already published at the moment
// finishStream releases a blocked reader (event-order obligation)
type vRcvOrder struct {
	vRcvMonS2C
	st         *tunnelClientStream
	wantTlr    bool
	checkedAt  int
}

func (r *vRcvOrder) close() {
	r.closes++
	if r.closes == 1 {
		r.checkedAt++
		// from here on a blocked RecvMsg returns the terminal result; Trailer() must already answer
		verifAssert(r.st.done.Load() != nil, "C01+C02.done-marker-set-before-reader-released")
		verifAssert(!vChanOpen(r.st.doneSignal), "C02+C15.trailers-published-before-reader-released")
		if r.wantTlr {
			t := r.st.Trailer()
			verifAssert(len(t["tk"]) == 1, "C02+C15.trailer-value-visible-before-reader-released")
		}
	}
}

// S-FIN-CLI (C02 C07 C13 C14 C15 C16): every sequence of up to N operations on
// a client stream: SendMsg, CloseSend, the peer's close frame (any status,
// with/without trailers), cancellation of the caller's context (Canceled or
// DeadlineExceeded), Header(), Trailer().
func verifH_FinishCli() {
	car := vNewCliCarrier(context.Background())
	c := vNewCliChannel(car, 7, true)
	b := vAddCliStream(c, 7)
	st := b.st
	ro := &vRcvOrder{st: st}
	st.receiver = ro
	st.isClientStream = verifBool("clientStreams")
	nops := verifParam("ops")
	finishedBy := 0 // 1 peer close, 2 cancel
	var finalCode int32
	sends, halfClosed := 0, false
	deadline := false
	realHeaders := false
	for i := 0; i < nops; i++ {
		sendsBefore := b.snd.msgs
		switch verifChoice("op", 7) {
		case 6:
			// a headers frame that the receive loop looked up earlier is dispatched now
			wasDone := st.done.Load() != nil
			hadHeaders := st.gotHeaders
			before := b.hdrTarget
			st.acceptServerFrame(&tunnelpb.ServerToClient_ResponseHeaders{ResponseHeaders: &tunnelpb.Metadata{
				Md: map[string]*tunnelpb.Metadata_Values{"hk": {Val: []string{"h"}}}}})
			if wasDone || hadHeaders {
				verifCover("late-headers")
				verifAssert(len(b.hdrTarget) == len(before), "C02+C07.late-headers-frame-has-no-effect")
			} else {
				realHeaders = true // the handler's headers were delivered while the RPC was live
			}
		case 0:
			err := st.SendMsg(&wrapperspb.BytesValue{Value: []byte{1}})
			if err == nil {
				sends++
				verifAssert(b.snd.msgs == sendsBefore+1, "C01.accepted-send-goes-out-once")
			} else {
				verifAssert(b.snd.msgs == sendsBefore, "C13+C16.refused-send-puts-nothing-on-the-wire")
			}
			if !st.isClientStream && sends > 1 {
				verifAssert(false, "C16.second-send-on-non-streaming-side-refused")
			}
			if halfClosed && err == nil {
				verifAssert(false, "C13.no-request-data-after-half-close")
			}
		case 1:
			err := st.CloseSend()
			if err == nil && finishedBy == 0 {
				halfClosed = true
			}
		case 2:
			code := verifI32("code")
			withTlr := verifBool("trailers")
			cs := &tunnelpb.CloseStream{Status: &spb.Status{Code: code, Message: "m"}}
			if withTlr {
				cs.ResponseTrailers = &tunnelpb.Metadata{Md: map[string]*tunnelpb.Metadata_Values{"tk": {Val: []string{"t1"}}}}
			}
			if finishedBy == 0 {
				finishedBy, finalCode = 1, code
				ro.wantTlr = withTlr
			}
			st.acceptServerFrame(&tunnelpb.ServerToClient_CloseStream{CloseStream: cs})
		case 3:
			first := finishedBy == 0
			if first {
				finishedBy = 2
			}
			if verifBool("deadline") {
				if first {
					deadline = true
				}
				st.cancelStream(context.DeadlineExceeded)
			} else {
				st.cancelStream(context.Canceled)
			}
		case 4:
			if finishedBy != 0 || st.gotHeaders {
				h, herr := st.Header()
				if realHeaders {
					// headers that were delivered stay readable, whatever ended the RPC afterwards
					verifCover("header-after-delivery")
					verifAssert(herr == nil && len(h["hk"]) == 1, "C02+C07.delivered-headers-stay-readable")
				}
			}
		case 5:
			t := st.Trailer()
			if finishedBy == 0 {
				verifAssert(t == nil, "C02.no-trailers-before-completion")
			}
		}
	}
	verifDrain()
	h := st.done.Load()
	if finishedBy == 0 {
		verifAssert(h == nil && vChanOpen(st.doneSignal), "C07.not-finished-without-cause")
		verifAssert(c.streams[7] == st, "C14.live-rpc-stays-in-table")
		return
	}
	verifAssert(h != nil, "C02+C07.finished")
	verifAssert(ro.closes >= 1 && ro.checkedAt == 1, "C01.reader-released-on-finish")
	_, still := c.streams[7]
	verifAssert(!still, "C14.finished-rpc-leaves-table")
	verifAssert(b.ctx.Err() != nil, "C14.finished-rpc-context-cancelled")
	verifAssert(!vChanOpen(st.doneSignal) && !vChanOpen(st.gotHeadersSignal), "C02+C04.finish-closes-signals-once")
	ncancel, nhalf := 0, 0
	for _, f := range car.sent {
		switch f.Frame.(type) {
		case *tunnelpb.ClientToServer_Cancel:
			ncancel++
		case *tunnelpb.ClientToServer_HalfClose:
			nhalf++
		}
	}
	verifAssert(nhalf <= 1, "C13.at-most-one-half-close")
	if finishedBy == 1 {
		verifCover("finished-by-peer")
		verifAssert(ncancel == 0, "C07+C13.no-cancel-frame-after-peer-close")
		if finalCode == 0 {
			verifAssert(h.error == io.EOF, "C02.ok-close-is-eof")
		} else {
			verifAssert(int32(status.Code(h.error)) == finalCode, "C02+C07.first-finisher-wins-status")
		}
		if ro.wantTlr {
			verifAssert(len(st.Trailer()["tk"]) == 1 && len(b.tlrTarget["tk"]) == 1, "C02.trailers-of-the-winning-close")
		}
	} else {
		verifCover("finished-by-cancel")
		verifAssert(ncancel == 1, "C01+C07+C13.exactly-one-cancel-frame")
		want := codes.Canceled
		if deadline {
			want = codes.DeadlineExceeded
		}
		verifAssert(status.Code(h.error) == want, "C07.cancel-outcome-code")
		verifAssert(len(st.Trailer()) == 0, "C07.no-trailers-mixed-into-cancel")
		verifAssert(ro.cancels == 1, "C07+C14.cancel-drops-queue")
	}
	verifAssert(verifLiveGoroutines() == 0, "C14.finish-no-goroutine-left")
}

// S-CREDIT (C05 C06 C13): reading returns exactly the consumed bytes as credit,
// as a window_update frame for the same stream, on both ends, through the
// streams the real allocateStream / createStream build (their callbacks).
func verifH_CreditReturn() {
	n := verifChoice("payload", 4) // serialized size grows with it; 0 = empty message
	payload := make([]byte, n)
	w := verifWire(payload)
	if verifBool("clientSide") {
		car := vNewCliCarrier(context.Background())
		c := vNewCliChannel(car, 0, false)
		st, err := c.newStream(context.Background(), true, true, "svc/m")
		verifAssume(err == nil)
		n0 := len(car.sent)
		st.acceptServerFrame(&tunnelpb.ServerToClient_ResponseMessage{ResponseMessage: &tunnelpb.MessageData{Size: uint32(len(w)), Data: w}})
		verifAssert(len(car.sent) == n0, "C06.cli-no-credit-before-the-application-reads")
		m := &wrapperspb.BytesValue{}
		verifAssert(st.RecvMsg(m) == nil, "C01.cli-message-readable")
		verifDrain()
		nupd := 0
		for _, f := range car.sent[n0:] {
			if u, ok := f.Frame.(*tunnelpb.ClientToServer_WindowUpdate); ok {
				nupd++
				verifAssert(f.StreamId == st.streamID, "C05+C13.cli-credit-for-the-same-stream")
				verifAssert(int(u.WindowUpdate) == len(w), "C05+C06.cli-credit-equals-bytes-read")
			}
		}
		if len(w) > 0 {
			verifCover("cli-credit")
			verifAssert(nupd == 1, "C05.cli-reading-returns-credit-once")
		} else {
			verifAssert(nupd == 0, "C06.cli-no-credit-for-nothing")
		}
		fr := st.receiver.(*defaultReceiver[tunnelpb.ServerToClientFrame])
		verifAssert(fr.currentWindow == initialWindowSize, "C05.cli-whole-window-available-after-reading-everything")
		// once the RPC is over no more credit is announced
		st.acceptServerFrame(&tunnelpb.ServerToClient_ResponseMessage{ResponseMessage: &tunnelpb.MessageData{Size: uint32(len(w)), Data: w}})
		st.acceptServerFrame(&tunnelpb.ServerToClient_CloseStream{CloseStream: &tunnelpb.CloseStream{}})
		n1 := len(car.sent)
		_ = st.RecvMsg(&wrapperspb.BytesValue{})
		verifDrain()
		for _, f := range car.sent[n1:] {
			_, isUpd := f.Frame.(*tunnelpb.ClientToServer_WindowUpdate)
			verifAssert(!isUpd, "C13.cli-no-window-update-after-the-rpc-finished")
		}
		st.cancel()
		verifDrain()
		return
	}
	// server side: through serve/createStream with a handler that reads one request
	car := &vSrvCarrier{ctx: context.Background(), endErr: io.EOF}
	hl := &vHandlerLog{readOne: true}
	svr := &tunnelServer{stream: car, services: vHandlers(hl), tunnelOpts: &tunnelOpts{},
		isClosing: func() bool { return false }, streams: map[int64]*tunnelServerStream{}, lastSeen: -1}
	rev0 := verifBool("rev0")
	rev := tunnelpb.ProtocolRevision_REVISION_ONE
	if rev0 {
		rev = tunnelpb.ProtocolRevision_REVISION_ZERO
	}
	method := []string{"a/s", "a/u"}[verifChoice("method", 2)] // a streaming and a unary method: credit is owed for both
	car.script = []*tunnelpb.ClientToServer{
		{StreamId: 4, Frame: &tunnelpb.ClientToServer_NewStream{NewStream: &tunnelpb.NewStream{MethodName: method, ProtocolRevision: rev, InitialWindowSize: 100}}},
		{StreamId: 4, Frame: &tunnelpb.ClientToServer_RequestMessage{RequestMessage: &tunnelpb.MessageData{Size: uint32(len(w)), Data: w}}},
		{StreamId: 4, Frame: &tunnelpb.ClientToServer_HalfClose{HalfClose: &emptypb.Empty{}}},
	}
	car.pauseAt = 2 // the half-close arrives after the handler has had time to read the request
	err := svr.serve(nil)
	verifDrain()
	verifAssert(err == nil && len(hl.calls) == 1 && hl.readErr == nil, "C01.srv-request-readable")
	nupd := 0
	closed := false
	for _, f := range car.sent {
		if f.StreamId == 4 {
			// the close frame is the last frame of a stream the handler ended: nothing - no
			// late window update either - follows it
			verifAssert(!closed, "C13.srv-close-is-the-last-frame-of-the-stream")
			if _, isClose := vCloseCode(f); isClose {
				closed = true
			}
		}
		if u, ok := f.Frame.(*tunnelpb.ServerToClient_WindowUpdate); ok {
			nupd++
			verifAssert(f.StreamId == 4, "C05+C13.srv-credit-for-the-same-stream")
			verifAssert(int(u.WindowUpdate) == len(w), "C05+C06.srv-credit-equals-bytes-read")
		}
	}
	verifAssert(closed, "C13.srv-stream-gets-its-close-frame")
	if rev0 {
		verifCover("srv-rev0")
		verifAssert(nupd == 0, "C11+C13.no-window-update-on-a-revision-zero-stream")
	} else if len(w) > 0 {
		verifCover("srv-credit")
		verifAssert(nupd == 1, "C05.srv-reading-returns-credit-once")
	} else {
		verifAssert(nupd == 0, "C06.srv-no-credit-for-nothing")
	}
}

// S-CLI-BLOCKED (C04 C05 C07 C14): a caller blocked in SendMsg on a zero window,
// or in RecvMsg on an empty queue, is released - with a non-OK result - by its
// own context ending, by the peer's close frame, and by the tunnel going away.
func verifH_CliBlocked() {
	car := vNewCliCarrier(context.Background())
	c := vNewCliChannel(car, 0, false)
	c.settings.InitialWindowSize = 0 // the peer grants nothing
	phase := verifChoice("phase", 4)
	stuck := make(chan struct{})
	if phase == 3 {
		// another way for a send to hang: the window is there, but the transport under the carrier is
		// backed up and the carrier's Send does not return (until the harness lets it)
		c.settings.InitialWindowSize = 100
		car.onSend = func(m *tunnelpb.ClientToServer) {
			if _, ok := m.Frame.(*tunnelpb.ClientToServer_RequestMessage); ok {
				<-stuck
			}
		}
	}
	cctx, ccancel := context.WithCancel(context.Background())
	st, err := c.newStream(cctx, true, true, "svc/m")
	verifAssume(err == nil)
	senderReturned := false
	if phase == 3 {
		verifGo("sender", func() {
			_ = st.SendMsg(&wrapperspb.BytesValue{Value: []byte{1, 2, 3}})
			senderReturned = true
		})
		verifDrain()
		verifAssert(!senderReturned, "C05.cli-sender-is-stuck-in-the-carrier")
	}
	var cerr error
	var hdrs metadata.MD
	returned := false
	verifGo("caller", func() {
		switch phase {
		case 0:
			cerr = st.SendMsg(&wrapperspb.BytesValue{Value: []byte{1, 2, 3}})
		case 1, 3:
			cerr = st.RecvMsg(&wrapperspb.BytesValue{})
		case 2:
			hdrs, cerr = st.Header()
		}
		returned = true
	})
	verifDrain()
	verifAssert(!returned, "C05.cli-caller-is-blocked-without-credit-or-data")
	verifCover("caller-blocked")
	if phase == 2 {
		// the headers frame is processed and, before the caller gets to run again, its context ends:
		// the headers were delivered, so Header() must report them
		st.acceptServerFrame(&tunnelpb.ServerToClient_ResponseHeaders{ResponseHeaders: &tunnelpb.Metadata{
			Md: map[string]*tunnelpb.Metadata_Values{"hk": {Val: []string{"h1"}}}}})
		ccancel()
		verifDrain()
		verifAssert(returned && cerr == nil && len(hdrs["hk"]) == 1, "C02+C07.headers-win-over-a-simultaneous-cancel")
		return
	}
	event := verifChoice("event", 4)
	switch event {
	case 0:
		ccancel() // the caller's context is cancelled / its deadline expires
	case 1:
		st.acceptServerFrame(&tunnelpb.ServerToClient_CloseStream{CloseStream: &tunnelpb.CloseStream{Status: &spb.Status{Code: 5, Message: "gone"}}})
	case 2:
		st.acceptServerFrame(&tunnelpb.ServerToClient_CloseStream{CloseStream: &tunnelpb.CloseStream{}}) // the handler returned OK early
	case 3:
		c.close(nil) // the tunnel goes away (cleanly)
	}
	verifDrain()
	// (phase 3: released although the same RPC's send is still stuck in the carrier - the end of an RPC does
	// not wait for the peer or the transport)
	verifAssert(returned, "C03+C04+C05+C07.cli-blocked-call-is-released")
	if phase == 3 {
		verifCover("released-while-send-stuck-in-carrier")
		close(stuck)
		verifDrain()
		verifAssert(senderReturned, "C04+C07.cli-stuck-send-returns-once-the-carrier-lets-it")
	}
	if returned {
		if (phase == 1 || phase == 3) && event == 2 {
			verifAssert(cerr == io.EOF, "C02.cli-ok-close-ends-recv-with-eof")
		} else {
			verifAssert(cerr != nil && cerr != io.EOF, "C04+C07.cli-released-call-is-non-ok")
		}
	}
	_, still := c.streams[st.streamID]
	verifAssert(!still, "C14.cli-blocked-rpc-leaves-table")
	verifAssert(verifLiveGoroutines() == 0, "C14.cli-blocked-rpc-no-goroutine-left")
	ccancel()
}
