package grpctunnel

import (
	"context"
	"errors"
)

type vframe struct {
	data  []byte
	size  uint32
	first bool
}

// checkShape asserts the chunking protocol on the frames handed to sendFunc
// for message msg: (first, size=len(msg), msg[0:l0]), (more, msg[l0:l0+l1]) ...
// contiguous from 0, every chunk <= 16 KiB; returns the number of bytes covered.
func vcheckShape(log []vframe, msg []byte) int {
	off := 0
	for i, f := range log {
		verifAssert(f.first == (i == 0), "C01+C13.first-flag")
		verifAssert(f.size == uint32(len(msg)), "C01+C13.size-field")
		verifAssert(len(f.data) <= chunkMax, "C06+C13.chunk-max")
		verifAssert(off+len(f.data) <= len(msg), "C01+C13.no-excess")
		verifAssertBytesEq(f.data, msg[off:off+len(f.data)], "C01+C13.bytes")
		if i > 0 {
			verifAssert(len(f.data) > 0, "C13.no-empty-continuation")
		}
		off += len(f.data)
	}
	return off
}

// vShapeMon is the online form of vcheckShape: every frame is checked at the
// moment it is handed to sendFunc (so frames of a message whose send() never
// returns - a parked or cancelled sender - are checked, too).
type vShapeMon struct {
	msg    []byte
	off    int
	frames int
}

func (m *vShapeMon) frame(d []byte, total uint32, first bool) {
	verifAssert(first == (m.frames == 0), "C01+C13.first-flag")
	verifAssert(total == uint32(len(m.msg)), "C01+C13.size-field")
	verifAssert(len(d) <= chunkMax, "C06+C13.chunk-max")
	verifAssert(m.off+len(d) <= len(m.msg), "C01+C13.no-excess")
	verifAssertBytesEq(d, m.msg[m.off:m.off+len(d)], "C01+C13.bytes")
	if m.frames > 0 {
		verifAssert(len(d) > 0, "C13.no-empty-continuation")
	}
	m.off += len(d)
	m.frames++
}

// S-SEND-NOFC (C01, C11, C13): the revision-zero sender, every message length
// up to chunks*16384+1, sendFunc failing at any call.
func verifH_SendNoFC() {
	chunks := verifParam("chunks")
	msg := verifBytes("msg", chunks*chunkMax+1)
	failAt := verifInt("failAt")
	var log []vframe
	calls := 0
	sendErr := errors.New("carrier send failed")
	s := newSenderWithoutFlowControl(func(d []byte, total uint32, first bool) error {
		calls++
		if calls-1 == failAt {
			return sendErr
		}
		log = append(log, vframe{d, total, first})
		return nil
	})
	err := s.send(msg)
	off := vcheckShape(log, msg)
	if err == nil {
		verifAssert(off == len(msg), "C01+C13.complete")
		verifAssert(len(log) >= 1, "C01+C13.envelope-even-when-empty")
		if len(log) > 1 {
			verifCover("continuation")
		}
	} else {
		verifAssert(err == sendErr, "C01.error-is-carrier-error")
		verifAssert(calls == len(log)+1, "C01+C13.stop-at-first-failure")
		verifCover("send-failed")
	}
}

// S-SEND-FC (C01, C05, C06, C13): the flow-controlled sender; before every
// synchronisation operation of send() the environment may deliver a window
// update of any size (through the real updateWindow) or cancel the context.
func verifH_SendFC() {
	chunks := verifParam("chunks")
	maxUpd := verifParam("updates")
	msg := verifBytes("msg", chunks*chunkMax+1)
	w0 := verifU32("w0")
	failAt := verifInt("failAt")
	ctx, cancel := context.WithCancel(context.Background())
	var log []vframe
	calls := 0
	var sent, granted uint64
	granted = uint64(w0)
	sendErr := errors.New("carrier send failed")
	var snd sender
	mon := &vShapeMon{msg: msg}
	snd = newSender(ctx, w0, func(d []byte, total uint32, first bool) error {
		calls++
		mon.frame(d, total, first)
		sent += uint64(len(d))
		// C06: never more on the wire than the receiver granted
		verifAssert(sent <= granted, "C06.sent-within-credit")
		if calls-1 == failAt {
			return sendErr
		}
		log = append(log, vframe{d, total, first})
		return nil
	})
	ds := snd.(*defaultSender)
	// the state a previous message may have left behind: any window and possibly a
	// stale wake-up token (all four combinations are reachable) - one message from
	// an arbitrary inter-message state stands for any number of earlier messages
	if verifBool("staleToken") {
		ds.windowUpdates <- struct{}{}
	}
	upd := 0
	cancelled := false
	inUpdate := false
	// scenario 0: window updates only; scenario 1: a cancellation (and at most one update)
	mayCancel := verifParam("cancel") == 1 && verifChoice("scenario", 2) == 1
	if mayCancel && maxUpd > 1 {
		maxUpd = 1
	}
	verifOnSync(func() {
		n := 1
		if upd < maxUpd {
			n = 2
		}
		if mayCancel && !cancelled {
			n = 3
		}
		switch verifChoice("env", n) {
		case 1:
			if upd < maxUpd {
				upd++
				add := verifU32("credit")
				// a conforming receiver never lets the window exceed 32 bits
				verifAssume(uint64(ds.currentWindow.Load())+uint64(add) <= 0xffffffff)
				granted += uint64(add)
				inUpdate = true
				snd.updateWindow(add)
				inUpdate = false
			}
		case 2:
			cancelled = true
			cancel()
		}
	})
	verifOnBlock(func() {
		// C05: a sender is parked only when it has no credit (and was not cancelled)
		// (a window update is delivered on the receive loop's stack: it must never be what blocks)
		verifAssert(!inUpdate, "C03+C05.window-update-never-blocks")
		verifCover("sender-parked")
		verifAssert(ds.currentWindow.Load() == 0, "C05.parked-only-without-credit")
		verifAssert(len(ds.windowUpdates) == 0, "C05.parked-only-without-token")
		verifAssert(!cancelled, "C04+C07.parked-only-while-context-live")
	})
	err := snd.send(msg)
	verifOnSync(nil)
	off := mon.off
	if err == nil {
		verifAssert(off == len(msg), "C01+C13.complete")
		verifAssert(len(log) >= 1, "C01+C13.envelope-even-when-empty")
		if len(log) > 1 {
			verifCover("two-frames")
		}
		if upd > 0 {
			verifCover("completed-with-update")
		}
		if len(log) > 3 {
			verifCover("four-frames")
		}
	} else if err == sendErr {
		verifAssert(calls == len(log)+1, "C01+C13.stop-at-first-failure")
		verifCover("send-failed")
	} else {
		verifAssert(cancelled, "C07.ctx-error-only-when-cancelled")
		verifAssert(err == context.Canceled, "C07.ctx-error-is-ctx-err")
		verifCover("cancelled")
	}
	// ledger: what was taken from the window is exactly what was sent
	verifAssert(uint64(ds.currentWindow.Load()) == granted-sent, "C05+C06.window-ledger")
	verifAssert(!verifMutexHeld(&ds.mu), "C15.send-mutex-released")
}

type vitem struct {
	sz uint
	id int
}

// S-RECV-STEP (C01, C03, C05, C06, C09): the flow-controlled receiver, one
// operation from an arbitrary state that satisfies the representation
// invariant RI: remaining window + sum(queued sizes) <= W0, with equality
// while not cancelled. One step from any such state stands for any history.
func verifH_RecvStep() {
	qmax := verifParam("queue")
	w0 := verifU32("w0")
	var credits []uint32
	var r *defaultReceiver[vitem]
	heldInCallback := false
	rcv := newReceiver[vitem](func(v vitem) uint { return v.sz }, func(c uint32) {
		credits = append(credits, c)
		if verifMutexHeld(&r.mu) {
			heldInCallback = true
		}
	}, w0)
	r = rcv.(*defaultReceiver[vitem])
	n := verifChoice("queued", qmax+1)
	var queued uint64
	var ids []int
	var sizes []uint
	for i := 0; i < n; i++ {
		sz := uint(verifU32("qsz"))
		r.items.PushBack(vitem{sz, i + 1})
		queued += uint64(sz)
		ids = append(ids, i+1)
		sizes = append(sizes, sz)
	}
	r.closed = verifBool("closed")
	r.cancelled = verifBool("cancelled")
	rem := verifU32("remaining")
	r.currentWindow = rem
	// RI
	verifAssume(uint64(rem)+queued <= uint64(w0))
	if !r.cancelled {
		verifAssume(uint64(rem)+queued == uint64(w0))
	}
	wasClosed, wasCancelled := r.closed, r.cancelled

	ri := func(tag string) {
		var q uint64
		for e := r.items.Front(); e != nil; e = e.Next() {
			q += uint64(e.Value.(vitem).sz)
		}
		verifAssert(uint64(r.currentWindow)+q <= uint64(w0), "C06+C09.RI-bounded-"+tag)
		if !r.cancelled {
			verifAssert(uint64(r.currentWindow)+q == uint64(w0), "C05+C06.RI-exact-"+tag)
		}
		verifAssert(!verifMutexHeld(&r.mu), "C15.recv-mutex-released-"+tag)
	}

	switch verifChoice("op", 4) {
	case 0: // accept an item of any 64-bit size
		sz := uint(verifU64("sz"))
		err := r.accept(vitem{sz, 99})
		if wasClosed {
			verifAssert(err == nil, "C01.accept-after-close-dropped")
			verifAssert(r.items.Len() == n, "C01.accept-after-close-dropped")
			verifAssert(r.currentWindow == rem, "C06.accept-after-close-dropped")
		} else if uint64(sz) > uint64(rem) {
			verifCover("overrun")
			verifAssert(err == errFlowControlWindowExceeded, "C06+C09.overrun-rejected")
			verifAssert(r.items.Len() == n, "C06+C09.overrun-not-queued")
			verifAssert(r.currentWindow == rem, "C06.overrun-window-unchanged")
		} else {
			verifCover("accepted")
			verifAssert(err == nil, "C06.within-window-accepted")
			verifAssert(r.items.Len() == n+1, "C01.accepted-queued")
			verifAssert(r.items.Back().Value.(vitem).id == 99, "C01.fifo-enqueue-at-back")
			verifAssert(uint64(r.currentWindow) == uint64(rem)-uint64(sz), "C06.window-decremented")
		}
		verifAssert(len(credits) == 0, "C06.no-credit-on-accept")
		ri("accept")
	case 1: // dequeue
		verifOnBlock(func() {
			verifCover("consumer-parked")
			verifAssert(n == 0 && !wasClosed && !wasCancelled, "C05.consumer-parked-only-when-empty-and-open")
		})
		it, ok := r.dequeue()
		if wasCancelled {
			verifAssert(!ok, "C01+C07.cancelled-yields-nothing")
			verifAssert(len(credits) == 0, "C06.no-credit-when-cancelled")
		} else if n > 0 {
			verifCover("dequeued")
			verifAssert(ok && it.id == ids[0], "C01.fifo-dequeue-front")
			verifAssert(it.sz == sizes[0], "C01.item-intact")
			verifAssert(r.items.Len() == n-1, "C01.exactly-one-removed")
			if n > 1 {
				verifAssert(r.items.Front().Value.(vitem).id == ids[1], "C01.fifo-order-kept")
			}
			if sizes[0] > 0 {
				verifAssert(len(credits) == 1 && uint(credits[0]) == sizes[0], "C05+C06.credit-equals-consumed")
			} else {
				verifAssert(len(credits) == 0, "C06.no-credit-for-empty")
			}
			verifAssert(!heldInCallback, "C03+C05.credit-callback-outside-lock")
		} else {
			// empty and closed
			verifAssert(wasClosed && !ok, "C01.closed-and-drained")
			verifAssert(len(credits) == 0, "C06.no-credit-when-drained")
		}
		ri("dequeue")
	case 2:
		r.close()
		verifAssert(r.closed, "C01.close-marks")
		verifAssert(r.items.Len() == n, "C01.close-keeps-queued")
		verifAssert(r.cancelled == wasCancelled, "C01.close-not-cancel")
		ri("close")
	case 3:
		r.cancel()
		verifAssert(r.cancelled, "C07.cancel-marks")
		verifAssert(r.items.Len() == 0, "C07+C14.cancel-drops-queued")
		ri("cancel")
	}
}
